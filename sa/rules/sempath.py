"""Semantic checks of the boolean path operations: svg_pathops / svg_types wrappers interpreted against an abstract
model of the skia-pathops API (sa.skia).  What is compared is the *request* made to the engine: which region term
is asked for (operands, each built from its commands under its own fill type, folded left to right with the named
PathOp), whether the returned contours come from a call with fix_winding=True, and whether engine errors propagate."""
from __future__ import annotations

from typing import Dict, List

from sa.core import AnalysisError, Repo, Report
from sa.pathsem import PathData, install_path_hooks
from sa.skia import SkArea, SkPath, SkResult, install_skia
from sa.sym import ClassRef, Rec, closure_of, explore, method_of

FT = {"nonzero": "FillType.WINDING", "evenodd": "FillType.EVEN_ODD"}
BUILDER = {"M": "moveTo", "L": "lineTo", "Q": "quadTo", "C": "cubicTo", "Z": "close"}


def _cmds(i):
    return [("M", (i, 0)), ("L", (i, 1)), ("Q", (i, 2, i, 3)), ("C", (i, 4, i, 5, i, 6)), ("Z", ())]


def _fill(cmds, rule):
    return ("fill", tuple((BUILDER[c], tuple(a)) for c, a in cmds), FT[rule], ())


def _expected(op, seqs, rules):
    acc = _fill(seqs[0], rules[0])
    if len(seqs) == 1:
        return ("simplified", acc)
    for c, r in zip(seqs[1:], rules[1:]):
        acc = ("op", f"PathOp.{op}", acc, _fill(c, r))
    return acc


EMPTY = ("empty",)


def denote(t, empties=()):
    """denote_raw with extra knowledge: the terms listed in `empties` (normal forms) are known to be the empty set on this
    execution path (an outcome on which the code found a fix_winding result to have area 0)."""
    d = denote_raw(t)
    if not empties:
        return d
    for _ in range(8):
        d2 = _subst_empty(d, tuple(empties))
        if d2 == d:
            break
        d = d2
    return d


def _subst_empty(d, empties):
    if d in empties:
        return EMPTY
    if not isinstance(d, tuple) or not d:
        return d
    if d[0] in ("U", "I"):
        ops = [_subst_empty(x, empties) for x in d[1]]
        if d[0] == "I":
            if EMPTY in ops:
                return EMPTY
            for e in empties:  # a sub-intersection known to be empty
                if isinstance(e, tuple) and e and e[0] == "I" and all(x in ops for x in e[1]):
                    return EMPTY
        else:
            ops = [x for x in ops if x != EMPTY]
            if not ops:
                return EMPTY
        ops = list(dict.fromkeys(ops))
        return ops[0] if len(ops) == 1 else (d[0], tuple(sorted(ops, key=repr)))
    if d[0] == "D":
        base, sub = _subst_empty(d[1], empties), _subst_empty(d[2], empties)
        if base == EMPTY:
            return EMPTY
        if sub == EMPTY:
            return base
        members = set(sub[1]) if isinstance(sub, tuple) and sub and sub[0] == "U" else {sub}
        for e in empties:  # A - B is known to be empty: so is A - (B u C)
            if isinstance(e, tuple) and e and e[0] == "D" and e[1] == base:
                em = set(e[2][1]) if isinstance(e[2], tuple) and e[2] and e[2][0] == "U" else {e[2]}
                if em <= members:
                    return EMPTY
        return ("D", base, sub)
    return d


def empties_of(outcome):
    """Region facts an outcome has learned: a decision `area of a fix_winding result is not positive` says its region is empty."""
    out = []
    for c, v in outcome.decisions:
        neg = False
        while getattr(c, "op", None) == "not":
            c, neg = c.args[0], not neg
        if getattr(c, "op", None) == "area-positive" and (v if neg else not v):
            a = c.args[0]
            if a.path.normalized:
                out.append(denote_raw(a.path.current_region()))
    return tuple(out)


def denote_raw(t):
    """Normal form of a region term under the laws of set algebra that do not depend on geometry: the empty path is the empty set;
    union and intersection are associative, commutative and idempotent (a regrouped fold is the same region); A - B - C = A - (B u C);
    X - X and X - everything-including-X are empty; `simplified` does not change the region."""
    if not isinstance(t, tuple):
        return t
    if t[0] == "fill":
        return EMPTY if not t[1] else t
    if t[0] == "simplified":
        return denote_raw(t[1])
    if t[0] == "op":
        kind, a, b = t[1], denote_raw(t[2]), denote_raw(t[3])
        if kind.endswith("UNION") or kind.endswith("INTERSECTION"):
            tag = "U" if kind.endswith("UNION") else "I"
            ops = []
            for x in (a, b):
                for y in (x[1] if isinstance(x, tuple) and x and x[0] == tag else (x,)):
                    if y not in ops:
                        ops.append(y)
            if tag == "U":
                ops = [y for y in ops if y != EMPTY]
                if not ops:
                    return EMPTY
            elif EMPTY in ops:
                return EMPTY
            if len(ops) == 1:
                return ops[0]
            return (tag, tuple(sorted(ops, key=repr)))
        if kind.endswith("DIFFERENCE"):
            if a == EMPTY or a == b:
                return EMPTY
            if b == EMPTY:
                return a
            base, subs = (a[1], list(a[2][1]) if isinstance(a[2], tuple) and a[2] and a[2][0] == "U" else [a[2]]) if isinstance(a, tuple) and a and a[0] == "D" else (a, [])
            for y in (b[1] if isinstance(b, tuple) and b and b[0] == "U" else (b,)):
                if y not in subs:
                    subs.append(y)
            if base in subs:
                return EMPTY
            return ("D", base, subs[0] if len(subs) == 1 else ("U", tuple(sorted(subs, key=repr))))
        return ("op", kind, a, b)
    return t


def _result(value, it_iter):
    items = list(it_iter(value)) if value is not None else []
    if len(items) == 1 and items[0][0] == "M" and len(items[0][1]) == 2 and isinstance(items[0][1][0], SkResult):
        return items[0][1][0].path
    return items


def _run(repo, fn, args, kwargs=None, fail=(), hooks=None):
    box = {}

    def setup(it):
        box["model"] = install_skia(it, fail)
        box["it"] = it
        if hooks:
            hooks(it)

    outs = explore(repo, fn, [], fresh_args=lambda: (list(args()), dict(kwargs or {})), setup=setup)
    for o in outs:
        if o.undecided:
            raise AnalysisError(f"boolean operations: abstract machine cannot interpret this code: {o.undecided}")
    return outs, box


def check_pathops(repo: Repo, rep: Report, rules: Dict[str, str]):
    """rules: 'region' (operands/rules/op/fold), 'normalized' (fix_winding), 'errors' (propagation), 'tables' (verbs and fill types round trip)"""
    po = repo["svg_pathops"]
    rep.saw("svg_pathops.skia_path", "svg_pathops.svg_commands", "svg_pathops._skia_pts_to_svg", "svg_pathops._do_pathop", "svg_pathops.union",
            "svg_pathops.intersection", "svg_pathops.difference", "svg_pathops.remove_overlaps", "svg_pathops.path_area")
    probs: Dict[str, List[tuple]] = {k: [] for k in ("region", "normalized", "errors", "tables")}
    n = 0
    order = ["evenodd", "nonzero", "evenodd"]
    cases = []
    for k in (1, 2, 3):
        for od in (["evenodd", "nonzero", "evenodd"], ["nonzero", "nonzero", "nonzero"], ["nonzero", "evenodd", "nonzero"], ["evenodd", "evenodd", "evenodd"]):
            cases.append(([_cmds(i) for i in range(k)], od[:k]))
    # longer operand lists: a fold that is regrouped (pairwise, tree-shaped) differs from the left fold for difference from four operands on
    for k in (4, 5, 7):
        cases.append(([_cmds(i) for i in range(k)], (["nonzero", "evenodd"] * 4)[:k]))
    cases.append(([_cmds(0), []], ["nonzero", "nonzero"]))          # an operand without geometry
    cases.append(([[], _cmds(1)], ["nonzero", "evenodd"]))
    cases.append(([_cmds(0), _cmds(0)], ["evenodd", "nonzero"]))    # the same outline under two rules
    cases.append(([_cmds(0), _cmds(1), _cmds(0)], ["nonzero", "nonzero", "nonzero"]))
    for name, op in (("union", "UNION"), ("intersection", "INTERSECTION"), ("difference", "DIFFERENCE")):
        fn = closure_of(repo, "svg_pathops", name)
        F = f"svg_pathops.{name}"
        for seqs, rl in cases:
            k = len(seqs)
            outs, box = _run(repo, fn, lambda: ([list(s) for s in seqs], list(rl)))
            for o in outs:
                n += 1
                if o.raised:
                    probs["region"].append((F, f"{name} of {k} operands raises {o.raised} ({o.raise_msg})"))
                    continue
                res = _result(o.value, box["it"].iterate)
                want = _expected(op, seqs, rl)
                known = empties_of(o)
                if res == []:
                    # no commands at all: right exactly when the requested region is known to be empty on this path
                    if denote(want, known) != EMPTY:
                        probs["region"].append((F, f"{name} of {k} operands under rules {rl} returns no geometry without asking the engine; "
                                                   f"the set operation over every operand under its own rule is {_short(want)}, which nothing on this path shows to be empty"))
                    continue
                if not isinstance(res, SkPath):
                    probs["region"].append((F, f"{name} of {k} operands returns {res!r}, not the engine's result"[:300]))
                    continue
                if denote(res.current_region(), known) != denote(want, known):
                    probs["region"].append((F, f"{name} of {k} operands under rules {rl} asks the engine for {_short(res.current_region())}; "
                                               f"the set operation over every operand under its own rule is {_short(want)}"))
                if not res.normalized:
                    probs["normalized"].append((F, f"{name} of {k} operands returns contours that did not come from a fix_winding=True call "
                                                   "(interior may depend on the rule the result is filled with)"))
        # empty operand list: nothing
        outs, box = _run(repo, fn, lambda: ([], []))
        for o in outs:
            if not o.raised and o.value is not None and list(box["it"].iterate(o.value)):
                probs["region"].append((F, f"{name} of no operands returns commands"))
        # error propagation
        for k, fail in ((2, "op"), (1, "simplify")):
            seqs = [_cmds(i) for i in range(k)]
            outs, box = _run(repo, fn, lambda: ([list(s) for s in seqs], order[:k]), fail={fail})
            for o in outs:
                n += 1
                if o.raised != "PathOpsError":
                    probs["errors"].append((F, f"when the engine's {fail} fails, {name} {'raises ' + o.raised if o.raised else 'returns a path'} instead of the engine's error"))
    # remove_overlaps / path_area
    for name in ("remove_overlaps", "path_area"):
        fn = closure_of(repo, "svg_pathops", name)
        F = f"svg_pathops.{name}"
        for rule in ("evenodd", "nonzero"):
            outs, box = _run(repo, fn, lambda: ([_cmds(7), rule]))
            for o in outs:
                n += 1
                if o.raised:
                    probs["region"].append((F, f"{name}(.., {rule}) raises {o.raised} ({o.raise_msg})"))
                    continue
                res = o.value.path if isinstance(o.value, SkArea) else _result(o.value, box["it"].iterate)
                if not isinstance(res, SkPath):
                    probs["region"].append((F, f"{name} returns {res!r}"[:200]))
                    continue
                want = ("simplified", _fill(_cmds(7), rule))
                if res.current_region() != want:
                    probs["region"].append((F, f"{name}(.., {rule}) works on {_short(res.current_region())}; the path under the caller's rule is {_short(want)}"))
                if not res.normalized:
                    probs["normalized"].append((F, f"{name}(.., {rule}) does not simplify with fix_winding=True"))
        outs, box = _run(repo, fn, lambda: ([_cmds(7), "evenodd"]), fail={"simplify"})
        for o in outs:
            if o.raised != "PathOpsError":
                probs["errors"].append((F, f"when the engine's simplify fails, {name} {'raises ' + o.raised if o.raised else 'returns a value'} instead of the engine's error"))
    # tables: round trip of verbs, unknown rule / command rejected
    fn = closure_of(repo, "svg_pathops", "skia_path")
    outs, box = _run(repo, fn, lambda: ([_cmds(3), "evenodd"]))
    for o in outs:
        if o.raised or not isinstance(o.value, SkPath):
            probs["tables"].append(("svg_pathops.skia_path", f"skia_path of M L Q C Z raises {o.raised}"))
            continue
        if o.value.current_region() != _fill(_cmds(3), "evenodd"):
            probs["tables"].append(("svg_pathops.skia_path", f"skia_path builds {_short(o.value.current_region())}; expected {_short(_fill(_cmds(3), 'evenodd'))}"))
        back = closure_of(repo, "svg_pathops", "svg_commands")
        path = o.value
        outs2, box2 = _run(repo, back, lambda: ([path]))
        for o2 in outs2:
            got = [(c, tuple(a)) for c, a in box2["it"].iterate(o2.value)] if not o2.raised else o2.raised
            if got != [(c, tuple(a)) for c, a in _cmds(3)]:
                probs["tables"].append(("svg_pathops.svg_commands", f"reading back a path built from M L Q C Z gives {got}"))
    for bad_args, what in ((lambda: ([_cmds(3), "winding"]), "an unknown fill rule"), (lambda: ([[("A", (1, 1, 0, 0, 0, 2, 2))], "nonzero"]), "a command Skia has no builder for")):
        outs, box = _run(repo, fn, bad_args)
        for o in outs:
            if o.raised != "ValueError":
                probs["tables"].append(("svg_pathops.skia_path", f"{what} {'raises ' + o.raised if o.raised else 'is accepted'} (ValueError expected)"))
    _report(rep, rules, probs, po, n, "svg_pathops")


def _short(t, lim=260):
    s = repr(t)
    return s if len(s) <= lim else s[:lim] + "..."


def _report(rep, rules, probs, mod, n, where):
    what = {"region": "requested region", "normalized": "fix_winding on the returned contours", "errors": "engine errors propagate", "tables": "verb / fill-type tables",
            "pairing": "operand / rule pairing in the shape-level wrappers"}
    for k, rid in rules.items():
        if k not in probs:
            continue
        if probs[k]:
            seen = {}
            for F, msg in probs[k]:
                seen.setdefault(F, msg)
            for F, msg in seen.items():
                q = F.split(".", 1)[1]
                rep.fail(rid, F, what[k], msg, mod, mod.functions.get(q))
        else:
            rep.ok(rid, f"{where} [{what[k]}]", f"{n} interpreted calls against the abstract skia-pathops model", True)


def check_shape_wrappers(repo: Repo, rep: Report, rule: str):
    """svg_types.union/intersection/difference and SVGPath.remove_overlaps: every shape is sent with its own rule, positionally."""
    st = repo["svg_types"]
    rep.saw("svg_types.union", "svg_types.intersection", "svg_types.difference", "svg_types.SVGPath.remove_overlaps")
    probs = {"pairing": []}
    n = 0

    def hooks(it):
        install_path_hooks(it)
        it.hooks[("svg_types", "SVGShape.as_cmd_seq")] = lambda i, a, k: _cmds(int(a[0].f["id"]))

    def shapes(k, cr=("evenodd", "nonzero", "evenodd"), ids=(0, 1, 2)):
        fr = ["nonzero", "evenodd", "evenodd"]
        return [Rec(ClassRef("svg_types", "SVGPath"), dict(_defaults(repo), id=str(ids[i]), d=PathData([("M", (ids[i], 0))]), clip_rule=cr[i], fill_rule=fr[i]), True) for i in range(k)]

    for name, op in (("union", "UNION"), ("intersection", "INTERSECTION"), ("difference", "DIFFERENCE")):
        fn = closure_of(repo, "svg_types", name)
        F = f"svg_types.{name}"
        variants = [("clip rules", {}, ["evenodd", "nonzero", "evenodd"], (0, 1, 2)), ("clip rules", {}, ["nonzero", "nonzero", "nonzero"], (0, 1, 2)),
                    ("clip rules, one outline twice", {}, ["nonzero", "evenodd", "nonzero"], (0, 0, 1))]
        if name == "intersection":
            variants.append(("explicit rules", {"fill_rules": ["nonzero", "nonzero", "evenodd"]}, ["nonzero", "nonzero", "evenodd"], (0, 1, 2)))
            variants.append(("explicit rules, one outline twice", {"fill_rules": ["evenodd", "nonzero", "evenodd"]}, ["evenodd", "nonzero", "evenodd"], (0, 0, 1)))
        for title, kw, rl, ids in variants:
            for k in (1, 2, 3):
                kwk = {kk: vv[:k] for kk, vv in kw.items()}
                cr = rl if not kw else ("evenodd", "evenodd", "nonzero")
                outs, box = _run(repo, fn, lambda: ([shapes(k, cr, ids)]), kwk, hooks=hooks)
                for o in outs:
                    n += 1
                    if o.raised:
                        probs["pairing"].append((F, f"{name} of {k} shapes raises {o.raised} ({o.raise_msg})"))
                        continue
                    res = _result(o.value, box["it"].iterate)
                    want = _expected(op, [_cmds(ids[i]) for i in range(k)], rl[:k])
                    known = empties_of(o)
                    if res == [] and denote(want, known) == EMPTY:
                        continue
                    if not isinstance(res, SkPath) or denote(res.current_region(), known) != denote(want, known):
                        got = _short(res.current_region()) if isinstance(res, SkPath) else repr(res)[:200]
                        probs["pairing"].append((F, f"{name} of {k} shapes ({title} {rl[:k]}) asks the engine for {got}; every shape under its own rule, in order, is {_short(want)}"))
                    elif not res.normalized:
                        probs["pairing"].append((F, f"{name} of {k} shapes returns contours without fix_winding"))
    fn = method_of(repo, "svg_types", "SVGPath", "remove_overlaps")
    F = "svg_types.SVGPath.remove_overlaps"
    for inplace in (False, True):
        outs, box = _run(repo, fn, lambda: ([shapes(2)[1]]), {"inplace": inplace}, hooks=hooks)
        for o in outs:
            n += 1
            if o.raised or not isinstance(o.value, Rec):
                probs["pairing"].append((F, f"remove_overlaps raises {o.raised}"))
                continue
            d = o.value.f.get("d")
            res = d.cmds[0][1][0].path if isinstance(d, PathData) and d.cmds and isinstance(d.cmds[0][1][0], SkResult) else None
            want = ("simplified", _fill(_cmds(1), "evenodd"))
            if res is None or res.current_region() != want or not res.normalized:
                probs["pairing"].append((F, f"remove_overlaps of an evenodd path asks for {_short(res.current_region()) if res else d!r}; expected {_short(want)} with fix_winding"))
            if o.value.f.get("fill_rule") != "nonzero" or o.value.f.get("clip_rule") != "nonzero":
                probs["pairing"].append((F, "the result of remove_overlaps is not marked nonzero"))
    _report(rep, {"pairing": rule}, probs, st, n, "svg_types")


def _defaults(repo):
    return {"id": "", "clip_path": "", "clip_rule": "nonzero", "fill": "black", "fill_opacity": 1, "fill_rule": "nonzero", "stroke": "none", "stroke_width": 1,
            "stroke_linecap": "butt", "stroke_linejoin": "miter", "stroke_miterlimit": 4, "stroke_dasharray": "none", "stroke_dashoffset": 0, "stroke_opacity": 1,
            "opacity": 1, "transform": "", "style": "", "display": "inline", "d": ""}


def check_apply_transform(repo: Repo, rep: Report, rule: str):
    """SVGShape.apply_transform asks the engine to map the shape's own command sequence with the six components of the
    given affine, in a b c d e f order, leaves the receiver untouched, and maps everything to M0,0 when the affine is degenerate."""
    from sa.poly import RF
    st = repo["svg_types"]
    F = "svg_types.SVGShape.apply_transform"
    rep.saw(F, "svg_pathops.transform")
    fn = method_of(repo, "svg_types", "SVGShape", "apply_transform")
    probs = []

    def hooks(it):
        install_path_hooks(it)
        it.hooks[("svg_types", "SVGShape.as_cmd_seq")] = lambda i, a, k: _cmds(int(a[0].f["id"]))

    def args():
        shape = Rec(ClassRef("svg_types", "SVGPath"), dict(_defaults(repo), id="4", d=PathData([("M", (4, 0))]), fill="red"), True)
        aff = Rec(ClassRef("svg_transform", "Affine2D"), {c: RF.sym("t" + c) for c in "abcdef"})
        return [shape, aff]

    outs, box = _run(repo, fn, args, hooks=hooks)
    n = 0
    for o in outs:
        n += 1
        degenerate = None
        for c, v in o.decisions:
            r = repr(c)
            if "ta*td - tb*tc" in r:
                degenerate = (not v) if r.startswith("not ") else v
        if o.raised:
            probs.append(f"raises {o.raised} ({o.raise_msg})")
            continue
        d = o.value.f.get("d") if isinstance(o.value, Rec) else None
        if o.value is o.args[0]:
            probs.append("apply_transform modifies and returns the receiver")
        cm = d.cmds if isinstance(d, PathData) else None
        if cm and len(cm) == 1 and isinstance(cm[0][1][0], SkResult):
            p = cm[0][1][0].path
            calls = [c for c in p.calls if c[0] == "transform"]
            want_verbs = tuple((BUILDER[c], tuple(a)) for c, a in _cmds(4))
            if tuple(p.verbs) != want_verbs:
                probs.append("the engine is not given the shape's own command sequence")
            if degenerate is True:
                probs.append("a degenerate transform is handed to the engine (the result must be the single point M0,0)")
            if len(calls) != 1 or [repr(x) for x in calls[0][1]] != ["ta", "tb", "tc", "td", "te", "tf"]:
                probs.append(f"the engine is asked to transform with {calls}; the six components a b c d e f of the given affine, in this order, are expected")
        elif cm == [("M", (0, 0))]:
            if degenerate is not True:
                probs.append("a transform that is not known to be degenerate maps the shape to M0,0")
        else:
            probs.append(f"result path data is {d!r}"[:200])
        if isinstance(o.value, Rec) and o.value.f.get("fill") != "red":
            probs.append("apply_transform loses the shape's paint")
    if probs or not n:
        rep.fail(rule, F, "apply_transform(Affine2D(a..f))", f"{len(probs)} deviations; first: {probs[0] if probs else 'no outcome'}", st, st.functions.get("SVGShape.apply_transform"))
    else:
        rep.ok(rule, F, f"{n} paths: commands mapped through the engine with (a, b, c, d, e, f); degenerate affine -> M0,0; receiver untouched, paint kept", True)


def check_stroke(repo: Repo, rep: Report, rules: Dict[str, str]):
    """svg_pathops.stroke interpreted against the engine model.  rules: 'args' (every parameter reaches the stroker under
    its own name, cap/join keywords map to the same-named Skia members, unknown keywords raise), 'post' (conics converted
    at the caller's tolerance, simplify(fix_winding=True), documented fallback to the unsimplified outline)"""
    from sa.poly import RF
    po = repo["svg_pathops"]
    F = "svg_pathops.stroke"
    rep.saw(F)
    fn = closure_of(repo, "svg_pathops", "stroke")
    probs: Dict[str, List[tuple]] = {"args": [], "post": []}
    n = 0
    W, M, T, O = RF.sym("width"), RF.sym("miter"), RF.sym("tol"), RF.sym("offset")
    dash = [RF.sym("d0"), RF.sym("d1")]
    for cap in ("butt", "round", "square"):
        for join in ("miter", "round", "bevel"):
            for fail in ((), ("simplify",)):
                outs, box = _run(repo, fn, lambda: ([_cmds(2), cap, join, W, M, T], ), {"dash_array": list(dash), "dash_offset": O}, fail=set(fail)) if False else \
                    _run(repo, fn, lambda: [_cmds(2), cap, join, W, M, T], {"dash_array": list(dash), "dash_offset": O}, fail=set(fail))
                for o in outs:
                    n += 1
                    case = f"stroke(cap={cap}, join={join}{', simplify failing' if fail else ''})"
                    if o.raised:
                        probs["post" if fail else "args"].append((F, f"{case} raises {o.raised} ({o.raise_msg})" + ("; the documented behaviour is to fall back to the unsimplified outline" if fail else "")))
                        continue
                    res = _result(o.value, box["it"].iterate)
                    if not isinstance(res, SkPath):
                        probs["args"].append((F, f"{case} returns {res!r}"[:200]))
                        continue
                    calls = res.calls
                    st = [c for c in calls if c[0] == "stroke"]
                    want = (repr(W), f"LineCap.{cap.upper()}_CAP", f"LineJoin.{join.upper()}_JOIN", repr(M), repr(dash), repr(O))
                    got = tuple(repr(x) for x in st[0][1]) if len(st) == 1 else None
                    if got != want or (st and st[0][2]):
                        probs["args"].append((F, f"{case}: the stroker is called with {got}{st[0][2] if st and st[0][2] else ''}; expected (width, cap, join, miterlimit, dash array, dash offset) = {want}"))
                    if tuple(res.verbs) != tuple((BUILDER[c], tuple(a)) for c, a in _cmds(2)):
                        probs["args"].append((F, f"{case}: the stroker is not given the caller's commands"))
                    cq = [c for c in calls if c[0] == "conics"]
                    if len(cq) != 1 or [repr(x) for x in cq[0][1]] != [repr(T)]:
                        probs["post"].append((F, f"{case}: conics are converted with {cq}; the caller's tolerance is expected, once"))
                    kinds = [c[0] for c in calls]
                    if kinds[:2] != ["stroke", "conics"]:
                        probs["post"].append((F, f"{case}: engine calls are {kinds}; stroke, then conic conversion, then simplify"))
                    if not fail and not res.normalized:
                        probs["post"].append((F, f"{case}: the outline is not simplified with fix_winding=True"))
                    if fail and ("simplify" in kinds):
                        probs["post"].append((F, f"{case}: after a failed simplify the half-simplified path is returned instead of the saved outline"))
    for bad, what in ((("butt", "arcs"), "join"), (("flat", "miter"), "cap")):
        outs, box = _run(repo, fn, lambda: [_cmds(2), bad[0], bad[1], W, M, T], {})
        for o in outs:
            if o.raised != "ValueError":
                probs["args"].append((F, f"an unknown {what} keyword {'raises ' + o.raised if o.raised else 'is accepted'} (ValueError expected)"))
    _report_stroke(rep, rules, probs, po, n)


def _report_stroke(rep, rules, probs, mod, n):
    what = {"args": "stroke parameters reach the engine", "post": "post-processing of the outline"}
    for k, rid in rules.items():
        if probs[k]:
            F, msg = probs[k][0]
            rep.fail(rid, F, what[k], f"{len(probs[k])} deviations; first: {msg}", mod, mod.functions.get("stroke"))
        else:
            rep.ok(rid, f"svg_pathops.stroke [{what[k]}]", f"{n} interpreted calls (3 caps x 3 joins, with and without a failing simplify) against the abstract skia-pathops model", True)


def check_bounds(repo: Repo, rep: Report, rule: str):
    """Bounding boxes: svg_pathops.bounding_box asks the engine for the tight bounds of the path built from the given
    commands; SVGShape.bounding_box hands it the shape's own normalised commands and converts (x1,y1,x2,y2) to (x,y,w,h),
    anew on every call (also after an in-place edit); SVG.bounding_box is the union over all shapes."""
    from sa.poly import RF
    from sa.sym import to_rf, explore
    po, st, svg = repo["svg_pathops"], repo["svg_types"], repo["svg"]
    rep.saw("svg_pathops.bounding_box", "svg_types.SVGShape.bounding_box", "svg.SVG.bounding_box")
    # 1. engine request
    fn = closure_of(repo, "svg_pathops", "bounding_box")
    outs, box = _run(repo, fn, lambda: [_cmds(5)])
    for o in outs:
        v = o.value
        if o.raised or not (isinstance(v, tuple) and len(v) == 2 and v[0] == "bounds" and isinstance(v[1], SkPath)):
            rep.fail(rule, "svg_pathops.bounding_box", "tight bounds of the path", f"bounding_box returns {v!r} / raises {o.raised}: the engine's tight bounds (.bounds) of the path are expected"[:300], po, po.functions.get("bounding_box"))
            return
        p = v[1]
        if tuple(p.verbs) != tuple((BUILDER[c], tuple(a)) for c, a in _cmds(5)) or any(c[0] in ("transform", "stroke", "simplify") for c in p.calls):
            rep.fail(rule, "svg_pathops.bounding_box", "tight bounds of the path", "the bounds are not those of the path built from the caller's commands as they are", po, po.functions.get("bounding_box"))
            return
    rep.ok(rule, "svg_pathops.bounding_box", "asks the engine for .bounds (tight) of the path built from the caller's commands", True)
    # 2. shape level: conversion and freshness
    seen = []

    def hooks(it):
        install_path_hooks(it)
        it.hooks[("svg_types", "SVGShape.as_cmd_seq")] = lambda i, a, k: ("cmds-of", repr(a[0].f.get("d")))

        def bb(i, a, k):
            seen.append(a[0])
            n = len(seen)
            return (RF.sym(f"x1_{n}"), RF.sym(f"y1_{n}"), RF.sym(f"x2_{n}"), RF.sym(f"y2_{n}"))
        it.hooks[("svg_pathops", "bounding_box")] = bb

    def body(it, a, k):
        shape = a[0]
        r1 = it.call(it.getattr(shape, "bounding_box"), [], {})
        shape.f["d"] = PathData([("M", (9, 9)), ("L", (8, 8))])   # in-place edit
        r2 = it.call(it.getattr(shape, "bounding_box"), [], {})
        return (r1, r2)

    from sa.sym import PyCallable
    outs = explore(repo, PyCallable(body), [], fresh_args=lambda: ([Rec(ClassRef("svg_types", "SVGPath"), dict(_defaults(repo), d=PathData([("M", (1, 1)), ("L", (2, 2))])), True)], {}), setup=hooks)
    F = "svg_types.SVGShape.bounding_box"
    for o in outs:
        if o.undecided:
            raise AnalysisError(f"{F}: abstract machine cannot interpret this code: {o.undecided}")
        if o.raised:
            rep.fail(rule, F, "Rect(x1, y1, x2 - x1, y2 - y1)", f"raises {o.raised}", st, st.functions.get("SVGShape.bounding_box"))
            return
        r1, r2 = o.value
        for n, r in ((1, r1), (2, r2)):
            S = RF.sym
            f = r.f if isinstance(r, Rec) else {}
            good = f and to_rf(f["x"]).equals(S(f"x1_{n}")) and to_rf(f["y"]).equals(S(f"y1_{n}")) and to_rf(f["w"]).equals(S(f"x2_{n}") - S(f"x1_{n}")) and to_rf(f["h"]).equals(S(f"y2_{n}") - S(f"y1_{n}"))
            if not good:
                what = ("the box after an in-place edit is not recomputed from the current path data (a cached box went stale)" if n == 2 and len(seen) < 2
                        else f"(x1,y1,x2,y2) of the engine is not converted to (x, y, x2-x1, y2-y1): {r!r}")
                rep.fail(rule, F, "Rect(x1, y1, x2 - x1, y2 - y1)", what[:300], st, st.functions.get("SVGShape.bounding_box"))
                return
        if len(seen) != 2 or seen[0] == seen[1] or "M1,1" not in repr(seen[0]) or "M9,9" not in repr(seen[1]):
            rep.fail(rule, F, "svg_pathops.bounding_box(self.as_cmd_seq())", f"the engine is asked about {seen}; the shape's own current command sequence is expected on every call", st, st.functions.get("SVGShape.bounding_box"))
            return
    rep.ok(rule, F, "engine asked about the shape's own current commands on every call (also after an in-place edit); result converted to (x, y, x2-x1, y2-y1)", True)


def check_document_box(repo: Repo, rep: Report, rule: str):
    from sa.dom import El
    from sa.machine import make_svg, run, ok_outcomes
    from sa.rules.sem import pd
    svg = repo["svg"]
    F = "svg.SVG.bounding_box"
    boxes = {"a": (2, 3, 4, 5), "b": (-1, 4, 1, 10), "line": (0, 20, 30, 20), "c": (3, 0, 3.5, 1)}
    want = (-1, 0, 31, 20)  # x, y, w, h of the union, including the horizontal line (an empty-area box still has extent)

    def build():
        kids = [El("path", {"id": nm, "d": pd(("M", (i, i)), ("L", (i + 1, i)))}, name=nm) for i, nm in enumerate(boxes)]
        return ([make_svg(El("svg", {"viewBox": "0 0 10 10"}, [El("g", {}, kids[:2])] + kids[2:], name="root"))], {})

    def extra(it):
        names = list(boxes)

        def bbox(i, a, k):
            r = repr(a[0])
            for idx, nm in enumerate(names):
                if f"('M', ({idx}, {idx}))" in r:
                    return boxes[nm]
            raise Undecided("bounding box of an unknown shape")
        it.hooks[("svg_pathops", "bounding_box")] = bbox

    from sa.sym import Undecided
    from fractions import Fraction
    outs = ok_outcomes(run(repo, "SVG.bounding_box", build, setup_extra=extra), F)
    for o in outs:
        f = o.value.f if isinstance(o.value, Rec) else None
        got = tuple(Fraction(str(f[k])) if not hasattr(f[k], "const_value") else f[k].const_value() for k in "xywh") if f else None
        if o.raised or got != tuple(Fraction(str(v)) for v in want):
            rep.fail(rule, F, "union of all shape boxes", f"the document box of shapes with boxes {boxes} is {got} (raises {o.raised}); the union of all of them, including the degenerate box of a horizontal line, is {want}",
                     svg, svg.functions.get("SVG.bounding_box"))
            return
    empty = ok_outcomes(run(repo, "SVG.bounding_box", lambda: ([make_svg(El("svg", {"viewBox": "0 0 10 10"}, [], name="root"))], {}), setup_extra=extra), F)
    if any(o.value is not None or o.raised for o in empty):
        rep.fail(rule, F, "document without shapes", "a document without shapes has a bounding box / raises", svg, svg.functions.get("SVG.bounding_box"))
        return
    rep.ok(rule, F, "4 shapes (one in a group, one a horizontal line with an empty-area box): box = union of all; None for a document without shapes", True)

"""Semantic checks of the boolean path operations: svg_pathops / svg_types wrappers interpreted against an abstract
model of the skia-pathops API (sa.skia).  What is compared is the *request* made to the engine: which region term
is asked for (operands, each built from its commands under its own fill type, folded left to right with the named
PathOp), whether the returned contours come from a call with fix_winding=True, and whether engine errors propagate."""
from __future__ import annotations

from typing import Dict, List

from sa.core import AnalysisError, Repo, Report
from sa.pathsem import PathData, install_path_hooks
from sa.skia import SkArea, SkPath, SkResult, install_skia
from sa.sym import ClassRef, Rec, closure_of, explore, method_of

FT = {"nonzero": "FillType.WINDING", "evenodd": "FillType.EVEN_ODD"}
BUILDER = {"M": "moveTo", "L": "lineTo", "Q": "quadTo", "C": "cubicTo", "Z": "close"}


def _cmds(i):
    return [("M", (i, 0)), ("L", (i, 1)), ("Q", (i, 2, i, 3)), ("C", (i, 4, i, 5, i, 6)), ("Z", ())]


def _fill(cmds, rule):
    return ("fill", tuple((BUILDER[c], tuple(a)) for c, a in cmds), FT[rule], ())


def _expected(op, seqs, rules):
    acc = _fill(seqs[0], rules[0])
    if len(seqs) == 1:
        return ("simplified", acc)
    for c, r in zip(seqs[1:], rules[1:]):
        acc = ("op", f"PathOp.{op}", acc, _fill(c, r))
    return acc


EMPTY = ("empty",)


def denote(t):
    """Normal form of a region term under the laws of set algebra that do not depend on geometry:
    the empty path is the empty set, X op X, X op empty; `simplified` does not change the region."""
    if not isinstance(t, tuple):
        return t
    if t[0] == "fill":
        return EMPTY if not t[1] else t
    if t[0] == "simplified":
        return denote(t[1])
    if t[0] == "op":
        kind, a, b = t[1], denote(t[2]), denote(t[3])
        if kind.endswith("UNION"):
            if a == EMPTY:
                return b
            if b == EMPTY or a == b:
                return a
        elif kind.endswith("INTERSECTION"):
            if a == EMPTY or b == EMPTY:
                return EMPTY
            if a == b:
                return a
        elif kind.endswith("DIFFERENCE"):
            if a == EMPTY or a == b:
                return EMPTY
            if b == EMPTY:
                return a
        return ("op", kind, a, b)
    return t


def _result(value, it_iter):
    items = list(it_iter(value)) if value is not None else []
    if len(items) == 1 and items[0][0] == "M" and len(items[0][1]) == 2 and isinstance(items[0][1][0], SkResult):
        return items[0][1][0].path
    return items


def _run(repo, fn, args, kwargs=None, fail=(), hooks=None):
    box = {}

    def setup(it):
        box["model"] = install_skia(it, fail)
        box["it"] = it
        if hooks:
            hooks(it)

    outs = explore(repo, fn, [], fresh_args=lambda: (list(args()), dict(kwargs or {})), setup=setup)
    for o in outs:
        if o.undecided:
            raise AnalysisError(f"boolean operations: abstract machine cannot interpret this code: {o.undecided}")
    return outs, box


def check_pathops(repo: Repo, rep: Report, rules: Dict[str, str]):
    """rules: 'region' (operands/rules/op/fold), 'normalized' (fix_winding), 'errors' (propagation), 'tables' (verbs and fill types round trip)"""
    po = repo["svg_pathops"]
    rep.saw("svg_pathops.skia_path", "svg_pathops.svg_commands", "svg_pathops._skia_pts_to_svg", "svg_pathops._do_pathop", "svg_pathops.union",
            "svg_pathops.intersection", "svg_pathops.difference", "svg_pathops.remove_overlaps", "svg_pathops.path_area")
    probs: Dict[str, List[tuple]] = {k: [] for k in ("region", "normalized", "errors", "tables")}
    n = 0
    order = ["evenodd", "nonzero", "evenodd"]
    cases = []
    for k in (1, 2, 3):
        for od in (["evenodd", "nonzero", "evenodd"], ["nonzero", "nonzero", "nonzero"], ["nonzero", "evenodd", "nonzero"], ["evenodd", "evenodd", "evenodd"]):
            cases.append(([_cmds(i) for i in range(k)], od[:k]))
    cases.append(([_cmds(0), []], ["nonzero", "nonzero"]))          # an operand without geometry
    cases.append(([[], _cmds(1)], ["nonzero", "evenodd"]))
    cases.append(([_cmds(0), _cmds(0)], ["evenodd", "nonzero"]))    # the same outline under two rules
    cases.append(([_cmds(0), _cmds(1), _cmds(0)], ["nonzero", "nonzero", "nonzero"]))
    for name, op in (("union", "UNION"), ("intersection", "INTERSECTION"), ("difference", "DIFFERENCE")):
        fn = closure_of(repo, "svg_pathops", name)
        F = f"svg_pathops.{name}"
        for seqs, rl in cases:
            k = len(seqs)
            outs, box = _run(repo, fn, lambda: ([list(s) for s in seqs], list(rl)))
            for o in outs:
                n += 1
                if o.raised:
                    probs["region"].append((F, f"{name} of {k} operands raises {o.raised} ({o.raise_msg})"))
                    continue
                res = _result(o.value, box["it"].iterate)
                if not isinstance(res, SkPath):
                    probs["region"].append((F, f"{name} of {k} operands returns {res!r}, not the engine's result"[:300]))
                    continue
                want = _expected(op, seqs, rl)
                if denote(res.current_region()) != denote(want):
                    probs["region"].append((F, f"{name} of {k} operands under rules {rl} asks the engine for {_short(res.current_region())}; "
                                               f"the set operation over every operand under its own rule is {_short(want)}"))
                if not res.normalized:
                    probs["normalized"].append((F, f"{name} of {k} operands returns contours that did not come from a fix_winding=True call "
                                                   "(interior may depend on the rule the result is filled with)"))
        # empty operand list: nothing
        outs, box = _run(repo, fn, lambda: ([], []))
        for o in outs:
            if not o.raised and o.value is not None and list(box["it"].iterate(o.value)):
                probs["region"].append((F, f"{name} of no operands returns commands"))
        # error propagation
        for k, fail in ((2, "op"), (1, "simplify")):
            seqs = [_cmds(i) for i in range(k)]
            outs, box = _run(repo, fn, lambda: ([list(s) for s in seqs], order[:k]), fail={fail})
            for o in outs:
                n += 1
                if o.raised != "PathOpsError":
                    probs["errors"].append((F, f"when the engine's {fail} fails, {name} {'raises ' + o.raised if o.raised else 'returns a path'} instead of the engine's error"))
    # remove_overlaps / path_area
    for name in ("remove_overlaps", "path_area"):
        fn = closure_of(repo, "svg_pathops", name)
        F = f"svg_pathops.{name}"
        for rule in ("evenodd", "nonzero"):
            outs, box = _run(repo, fn, lambda: ([_cmds(7), rule]))
            for o in outs:
                n += 1
                if o.raised:
                    probs["region"].append((F, f"{name}(.., {rule}) raises {o.raised} ({o.raise_msg})"))
                    continue
                res = o.value.path if isinstance(o.value, SkArea) else _result(o.value, box["it"].iterate)
                if not isinstance(res, SkPath):
                    probs["region"].append((F, f"{name} returns {res!r}"[:200]))
                    continue
                want = ("simplified", _fill(_cmds(7), rule))
                if res.current_region() != want:
                    probs["region"].append((F, f"{name}(.., {rule}) works on {_short(res.current_region())}; the path under the caller's rule is {_short(want)}"))
                if not res.normalized:
                    probs["normalized"].append((F, f"{name}(.., {rule}) does not simplify with fix_winding=True"))
        outs, box = _run(repo, fn, lambda: ([_cmds(7), "evenodd"]), fail={"simplify"})
        for o in outs:
            if o.raised != "PathOpsError":
                probs["errors"].append((F, f"when the engine's simplify fails, {name} {'raises ' + o.raised if o.raised else 'returns a value'} instead of the engine's error"))
    # tables: round trip of verbs, unknown rule / command rejected
    fn = closure_of(repo, "svg_pathops", "skia_path")
    outs, box = _run(repo, fn, lambda: ([_cmds(3), "evenodd"]))
    for o in outs:
        if o.raised or not isinstance(o.value, SkPath):
            probs["tables"].append(("svg_pathops.skia_path", f"skia_path of M L Q C Z raises {o.raised}"))
            continue
        if o.value.current_region() != _fill(_cmds(3), "evenodd"):
            probs["tables"].append(("svg_pathops.skia_path", f"skia_path builds {_short(o.value.current_region())}; expected {_short(_fill(_cmds(3), 'evenodd'))}"))
        back = closure_of(repo, "svg_pathops", "svg_commands")
        path = o.value
        outs2, box2 = _run(repo, back, lambda: ([path]))
        for o2 in outs2:
            got = [(c, tuple(a)) for c, a in box2["it"].iterate(o2.value)] if not o2.raised else o2.raised
            if got != [(c, tuple(a)) for c, a in _cmds(3)]:
                probs["tables"].append(("svg_pathops.svg_commands", f"reading back a path built from M L Q C Z gives {got}"))
    for bad_args, what in ((lambda: ([_cmds(3), "winding"]), "an unknown fill rule"), (lambda: ([[("A", (1, 1, 0, 0, 0, 2, 2))], "nonzero"]), "a command Skia has no builder for")):
        outs, box = _run(repo, fn, bad_args)
        for o in outs:
            if o.raised != "ValueError":
                probs["tables"].append(("svg_pathops.skia_path", f"{what} {'raises ' + o.raised if o.raised else 'is accepted'} (ValueError expected)"))
    _report(rep, rules, probs, po, n, "svg_pathops")


def _short(t, lim=260):
    s = repr(t)
    return s if len(s) <= lim else s[:lim] + "..."


def _report(rep, rules, probs, mod, n, where):
    what = {"region": "requested region", "normalized": "fix_winding on the returned contours", "errors": "engine errors propagate", "tables": "verb / fill-type tables",
            "pairing": "operand / rule pairing in the shape-level wrappers"}
    for k, rid in rules.items():
        if k not in probs:
            continue
        if probs[k]:
            seen = {}
            for F, msg in probs[k]:
                seen.setdefault(F, msg)
            for F, msg in seen.items():
                q = F.split(".", 1)[1]
                rep.fail(rid, F, what[k], msg, mod, mod.functions.get(q))
        else:
            rep.ok(rid, f"{where} [{what[k]}]", f"{n} interpreted calls against the abstract skia-pathops model", True)


def check_shape_wrappers(repo: Repo, rep: Report, rule: str):
    """svg_types.union/intersection/difference and SVGPath.remove_overlaps: every shape is sent with its own rule, positionally."""
    st = repo["svg_types"]
    rep.saw("svg_types.union", "svg_types.intersection", "svg_types.difference", "svg_types.SVGPath.remove_overlaps")
    probs = {"pairing": []}
    n = 0

    def hooks(it):
        install_path_hooks(it)
        it.hooks[("svg_types", "SVGShape.as_cmd_seq")] = lambda i, a, k: _cmds(int(a[0].f["id"]))

    def shapes(k, cr=("evenodd", "nonzero", "evenodd"), ids=(0, 1, 2)):
        fr = ["nonzero", "evenodd", "evenodd"]
        return [Rec(ClassRef("svg_types", "SVGPath"), dict(_defaults(repo), id=str(ids[i]), d=PathData([("M", (ids[i], 0))]), clip_rule=cr[i], fill_rule=fr[i]), True) for i in range(k)]

    for name, op in (("union", "UNION"), ("intersection", "INTERSECTION"), ("difference", "DIFFERENCE")):
        fn = closure_of(repo, "svg_types", name)
        F = f"svg_types.{name}"
        variants = [("clip rules", {}, ["evenodd", "nonzero", "evenodd"], (0, 1, 2)), ("clip rules", {}, ["nonzero", "nonzero", "nonzero"], (0, 1, 2)),
                    ("clip rules, one outline twice", {}, ["nonzero", "evenodd", "nonzero"], (0, 0, 1))]
        if name == "intersection":
            variants.append(("explicit rules", {"fill_rules": ["nonzero", "nonzero", "evenodd"]}, ["nonzero", "nonzero", "evenodd"], (0, 1, 2)))
            variants.append(("explicit rules, one outline twice", {"fill_rules": ["evenodd", "nonzero", "evenodd"]}, ["evenodd", "nonzero", "evenodd"], (0, 0, 1)))
        for title, kw, rl, ids in variants:
            for k in (1, 2, 3):
                kwk = {kk: vv[:k] for kk, vv in kw.items()}
                cr = rl if not kw else ("evenodd", "evenodd", "nonzero")
                outs, box = _run(repo, fn, lambda: ([shapes(k, cr, ids)]), kwk, hooks=hooks)
                for o in outs:
                    n += 1
                    if o.raised:
                        probs["pairing"].append((F, f"{name} of {k} shapes raises {o.raised} ({o.raise_msg})"))
                        continue
                    res = _result(o.value, box["it"].iterate)
                    want = _expected(op, [_cmds(ids[i]) for i in range(k)], rl[:k])
                    if not isinstance(res, SkPath) or denote(res.current_region()) != denote(want):
                        got = _short(res.current_region()) if isinstance(res, SkPath) else repr(res)[:200]
                        probs["pairing"].append((F, f"{name} of {k} shapes ({title} {rl[:k]}) asks the engine for {got}; every shape under its own rule, in order, is {_short(want)}"))
                    elif not res.normalized:
                        probs["pairing"].append((F, f"{name} of {k} shapes returns contours without fix_winding"))
    fn = method_of(repo, "svg_types", "SVGPath", "remove_overlaps")
    F = "svg_types.SVGPath.remove_overlaps"
    for inplace in (False, True):
        outs, box = _run(repo, fn, lambda: ([shapes(2)[1]]), {"inplace": inplace}, hooks=hooks)
        for o in outs:
            n += 1
            if o.raised or not isinstance(o.value, Rec):
                probs["pairing"].append((F, f"remove_overlaps raises {o.raised}"))
                continue
            d = o.value.f.get("d")
            res = d.cmds[0][1][0].path if isinstance(d, PathData) and d.cmds and isinstance(d.cmds[0][1][0], SkResult) else None
            want = ("simplified", _fill(_cmds(1), "evenodd"))
            if res is None or res.current_region() != want or not res.normalized:
                probs["pairing"].append((F, f"remove_overlaps of an evenodd path asks for {_short(res.current_region()) if res else d!r}; expected {_short(want)} with fix_winding"))
            if o.value.f.get("fill_rule") != "nonzero" or o.value.f.get("clip_rule") != "nonzero":
                probs["pairing"].append((F, "the result of remove_overlaps is not marked nonzero"))
    _report(rep, {"pairing": rule}, probs, st, n, "svg_types")


def _defaults(repo):
    return {"id": "", "clip_path": "", "clip_rule": "nonzero", "fill": "black", "fill_opacity": 1, "fill_rule": "nonzero", "stroke": "none", "stroke_width": 1,
            "stroke_linecap": "butt", "stroke_linejoin": "miter", "stroke_miterlimit": 4, "stroke_dasharray": "none", "stroke_dashoffset": 0, "stroke_opacity": 1,
            "opacity": 1, "transform": "", "style": "", "display": "inline", "d": ""}


def check_apply_transform(repo: Repo, rep: Report, rule: str):
    """SVGShape.apply_transform asks the engine to map the shape's own command sequence with the six components of the
    given affine, in a b c d e f order, leaves the receiver untouched, and maps everything to M0,0 when the affine is degenerate."""
    from sa.poly import RF
    st = repo["svg_types"]
    F = "svg_types.SVGShape.apply_transform"
    rep.saw(F, "svg_pathops.transform")
    fn = method_of(repo, "svg_types", "SVGShape", "apply_transform")
    probs = []

    def hooks(it):
        install_path_hooks(it)
        it.hooks[("svg_types", "SVGShape.as_cmd_seq")] = lambda i, a, k: _cmds(int(a[0].f["id"]))

    def args():
        shape = Rec(ClassRef("svg_types", "SVGPath"), dict(_defaults(repo), id="4", d=PathData([("M", (4, 0))]), fill="red"), True)
        aff = Rec(ClassRef("svg_transform", "Affine2D"), {c: RF.sym("t" + c) for c in "abcdef"})
        return [shape, aff]

    outs, box = _run(repo, fn, args, hooks=hooks)
    n = 0
    for o in outs:
        n += 1
        degenerate = None
        for c, v in o.decisions:
            r = repr(c)
            if "ta*td - tb*tc" in r:
                degenerate = (not v) if r.startswith("not ") else v
        if o.raised:
            probs.append(f"raises {o.raised} ({o.raise_msg})")
            continue
        d = o.value.f.get("d") if isinstance(o.value, Rec) else None
        if o.value is o.args[0]:
            probs.append("apply_transform modifies and returns the receiver")
        cm = d.cmds if isinstance(d, PathData) else None
        if cm and len(cm) == 1 and isinstance(cm[0][1][0], SkResult):
            p = cm[0][1][0].path
            calls = [c for c in p.calls if c[0] == "transform"]
            want_verbs = tuple((BUILDER[c], tuple(a)) for c, a in _cmds(4))
            if tuple(p.verbs) != want_verbs:
                probs.append("the engine is not given the shape's own command sequence")
            if degenerate is True:
                probs.append("a degenerate transform is handed to the engine (the result must be the single point M0,0)")
            if len(calls) != 1 or [repr(x) for x in calls[0][1]] != ["ta", "tb", "tc", "td", "te", "tf"]:
                probs.append(f"the engine is asked to transform with {calls}; the six components a b c d e f of the given affine, in this order, are expected")
        elif cm == [("M", (0, 0))]:
            if degenerate is not True:
                probs.append("a transform that is not known to be degenerate maps the shape to M0,0")
        else:
            probs.append(f"result path data is {d!r}"[:200])
        if isinstance(o.value, Rec) and o.value.f.get("fill") != "red":
            probs.append("apply_transform loses the shape's paint")
    if probs or not n:
        rep.fail(rule, F, "apply_transform(Affine2D(a..f))", f"{len(probs)} deviations; first: {probs[0] if probs else 'no outcome'}", st, st.functions.get("SVGShape.apply_transform"))
    else:
        rep.ok(rule, F, f"{n} paths: commands mapped through the engine with (a, b, c, d, e, f); degenerate affine -> M0,0; receiver untouched, paint kept", True)

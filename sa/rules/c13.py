"""C13 - boolean path operations compute the set operation under each operand's fill rule (plumbing clauses)."""
from __future__ import annotations

import ast

from sa.calls import Resolver
from sa.core import AnalysisError, Repo, Report, call_name, kwarg, parent, unparse, walk_no_nested
from sa.fold import Folder, Ref, Partial
from sa.selftest import Edit, Variant

from sa.texts import T as _TX

EXPLANATION = _TX["C13"]["explanation"] + " Not decided: " + _TX["C13"]["not_decided"] + "."
ASSUMPTIONS = _TX["C13"]["assumptions"]
P = "C13"


def run(repo: Repo, rep: Report):
    from sa.rules import sempath
    for rid, txt in [
        ("R-TABLE.skia", "skia_path / svg_commands interpreted against the abstract engine: M L Q C Z build moveTo lineTo quadTo cubicTo close with the arguments in order and read back as the same letters; nonzero -> WINDING, evenodd -> EVEN_ODD; unknown rule or command raises ValueError"),
        ("R-GUARD.do_pathop", "union/intersection/difference/remove_overlaps/path_area interpreted on 1-3 operands (rule permutations, empty operands, one outline under two rules): the region requested from the engine equals, up to the laws of set algebra, the left fold of the named operation over every operand under its own rule; the returned contours come from a fix_winding=True call"),
        ("R-SITE.pathop-wrappers", "svg_types.union/intersection/difference and SVGPath.remove_overlaps interpreted on shapes: every shape is sent, in order, under its clip_rule (or the explicit rule list); remove_overlaps marks its result nonzero"),
        ("R-EFFECT.pathops-errors", "with an engine whose op / simplify raises PathOpsError, each of the operations raises that error instead of returning a path"),
    ]:
        rep.rule(rid, txt)
    sempath.check_pathops(repo, rep, {"tables": "R-TABLE.skia", "region": "R-GUARD.do_pathop", "normalized": "R-GUARD.do_pathop", "errors": "R-EFFECT.pathops-errors"})
    sempath.check_shape_wrappers(repo, rep, "R-SITE.pathop-wrappers")


def _true_kw(call, name) -> bool:
    v = kwarg(call, name)
    return isinstance(v, ast.Constant) and v.value is True


def _fn(node):
    p = node
    while p is not None:
        if isinstance(p, ast.FunctionDef):
            return getattr(p, "_qualname", p.name)
        p = parent(p)
    return "<module>"


_P = "svg_pathops"
VARIANTS = [
    Variant("early exit judged by the area of the raw running result (opposite windings cancel)",
            [Edit(_P, "_do_pathop", "        sk_path2 = skia_path(svg_cmds, fill_rule)\n", "        if op != pathops.PathOp.UNION and not sk_path.area > 0:\n            return svg_commands(pathops.Path())\n        sk_path2 = skia_path(svg_cmds, fill_rule)\n")],
            [("R-GUARD.do_pathop", "svg_pathops")]),
    Variant("silent: early exit once a fix_winding result has area 0",
            [Edit(_P, "_do_pathop", "        sk_path = pathops.op(sk_path, sk_path2, op, fix_winding=True)\n", "        sk_path = pathops.op(sk_path, sk_path2, op, fix_winding=True)\n        if op != pathops.PathOp.UNION and not sk_path.area > 0:\n            return svg_commands(pathops.Path())\n")],
            silent=True),
    Variant("fill-type table swapped", [Edit(_P, None, '"nonzero": pathops.FillType.WINDING,\n    "evenodd": pathops.FillType.EVEN_ODD,', '"nonzero": pathops.FillType.EVEN_ODD,\n    "evenodd": pathops.FillType.WINDING,')],
            [("R-", "svg_pathops")]),
    Variant("rules shifted by one", [Edit(_P, "_do_pathop", "zip(svg_cmd_seqs[1:], fill_rules[1:])", "zip(svg_cmd_seqs[1:], fill_rules)")], [("R-GUARD.do_pathop", "svg_pathops")]),
    Variant("silent: fix_winding dropped inside the fold (the for-else simplify(fix_winding=True) still normalises every result)", [Edit(_P, "_do_pathop", "sk_path = pathops.op(sk_path, sk_path2, op, fix_winding=True)", "sk_path = pathops.op(sk_path, sk_path2, op)")], silent=True),
    Variant("final simplify without fix_winding", [Edit(_P, "_do_pathop", "        sk_path.simplify(fix_winding=True)\n    return svg_commands(sk_path)", "        sk_path.simplify(fix_winding=False)\n    return svg_commands(sk_path)")], [("R-GUARD.do_pathop", "svg_pathops")]),
    Variant("break in the fold", [Edit(_P, "_do_pathop", "sk_path = pathops.op(sk_path, sk_path2, op, fix_winding=True)\n", "sk_path = pathops.op(sk_path, sk_path2, op, fix_winding=True)\n        break\n")],
            [("R-GUARD.do_pathop", "svg_pathops")]),
    Variant("pathops.op errors swallowed", [Edit(_P, "_do_pathop", "        sk_path = pathops.op(sk_path, sk_path2, op, fix_winding=True)\n",
                                                  "        try:\n            sk_path = pathops.op(sk_path, sk_path2, op, fix_winding=True)\n        except pathops.PathOpsError:\n            pass\n")],
            [("R-EFFECT.pathops-errors", "svg_pathops")]),
    Variant("union concatenates contours", [Edit(_P, "union", "    return _do_pathop(pathops.PathOp.UNION, svg_cmd_seqs, fill_rules)",
                                                  "    if len(set(fill_rules)) == 1 and svg_cmd_seqs:\n        return remove_overlaps([c for s in svg_cmd_seqs for c in s], fill_rules[0])\n    return _do_pathop(pathops.PathOp.UNION, svg_cmd_seqs, fill_rules)")],
            [("R-GUARD.do_pathop", "union")]),
    Variant("single nonzero shape returned as is", [Edit("svg_types", "union", "    return svg_pathops.union(", "    shapes = list(shapes)\n    if len(shapes) == 1 and shapes[0].clip_rule == 'nonzero':\n        return shapes[0].as_cmd_seq()\n    return svg_pathops.union(")],
            [("R-SITE.pathop-wrappers", "union")]),
    Variant("difference uses fill_rule", [Edit("svg_types", "difference", "[s.clip_rule for s in shapes]", "[s.fill_rule for s in shapes]")], [("R-SITE.pathop-wrappers", "difference")]),
    Variant("Q mapped to cubicTo", [Edit(_P, None, '"Q": pathops.Path.quadTo,', '"Q": pathops.Path.cubicTo,')], [("R-TABLE.skia", "skia_path")]),
    Variant("path_area without fix_winding for evenodd", [Edit(_P, "path_area", "sk_path.simplify(fix_winding=True)", 'sk_path.simplify(fix_winding=fill_rule == "nonzero")')],
            [("R-", "path_area")]),
    Variant("empty operands skipped in every operation", [Edit(_P, "_do_pathop", "        sk_path2 = skia_path(svg_cmds, fill_rule)\n", "        sk_path2 = skia_path(svg_cmds, fill_rule)\n        if not svg_cmds:\n            continue\n")], [("R-GUARD.do_pathop", "intersection")]),
    Variant("silent: empty operands skipped in union only", [Edit(_P, "_do_pathop", "        sk_path2 = skia_path(svg_cmds, fill_rule)\n", "        sk_path2 = skia_path(svg_cmds, fill_rule)\n        if not svg_cmds and op == pathops.PathOp.UNION:\n            continue\n")], silent=True),
    Variant("silent: fold extracted into a helper", [Edit(_P, "_do_pathop", "        sk_path = pathops.op(sk_path, sk_path2, op, fix_winding=True)\n", "        sk_path = _combine(sk_path, sk_path2, op)\n"),
                                                     Edit(_P, None, "def _do_pathop(", "def _combine(a, b, op):\n    return pathops.op(a, b, op, fix_winding=True)\n\n\ndef _do_pathop(")], silent=True),
    Variant("silent: docstring added", [Edit(_P, "union", "    return _do_pathop(pathops.PathOp.UNION, svg_cmd_seqs, fill_rules)", '    """Union of the operands."""\n    return _do_pathop(pathops.PathOp.UNION, svg_cmd_seqs, fill_rules)')], silent=True),
]

"""C13 - boolean path operations compute the set operation under each operand's fill rule (plumbing clauses)."""
from __future__ import annotations

import ast

from sa.calls import Resolver
from sa.core import AnalysisError, Repo, Report, call_name, kwarg, parent, unparse, walk_no_nested
from sa.fold import Folder, Ref, Partial
from sa.selftest import Edit, Variant

EXPLANATION = (
    "Skia computes the regions; what is decided is the plumbing that makes Skia compute the *right* operation: (R-TABLE) fill-rule names map "
    "to the same-named Skia fill types, SVG commands to the same-named Skia builders and verbs back to the same letters, the three operations "
    "pass their own PathOp; (def-use in _do_pathop) operand i is built with rule i, the fold is left to right over all remaining operands with "
    "fix_winding, every path to the return passes a final simplify(fix_winding=True), no short-cut returns an operand unsimplified; "
    "remove_overlaps/path_area build the path with the caller's rule before simplifying; the shape-level wrappers pair every operand with its "
    "clip_rule (or the explicit rule list) positionally; (R-EFFECT) no handler for PathOpsError/Exception exists in the closure of the four "
    "operations - the only two handlers in the package are the documented ones in stroke() and might_paint()."
)
ASSUMPTIONS = ["skia-pathops computes the set operation for the fill types it is given; simplify(fix_winding=True) yields a path whose nonzero and evenodd interiors coincide"]
P = "C13"


def run(repo: Repo, rep: Report):
    po = repo["svg_pathops"]
    st = repo["svg_types"]
    folder = Folder(repo)
    res = Resolver(repo)
    for rid, txt in [
        ("R-TABLE.skia", "fill-rule / command / verb tables map to the same-named Skia members"),
        ("R-GUARD.do_pathop", "_do_pathop: operand i with rule i, left fold with fix_winding, final simplify on every path, no unsimplified return"),
        ("R-SITE.pathop-wrappers", "union/intersection/difference pass their PathOp; shape-level wrappers pair operands with clip_rule / explicit rules"),
        ("R-EFFECT.pathops-errors", "no PathOpsError/Exception handler in the closure of the four operations"),
    ]:
        rep.rule(rid, txt)
    # ---- tables
    ft = folder.table("svg_pathops", "_SVG_FILL_RULE_TO_SKIA_FILL_TYPE")
    want = {"nonzero": "FillType.WINDING", "evenodd": "FillType.EVEN_ODD"}
    got = {k: (v.name if isinstance(v, Ref) else str(v)) for k, v in ft.items()}
    rep.tables.add("svg_pathops._SVG_FILL_RULE_TO_SKIA_FILL_TYPE")
    if got != want:
        rep.fail("R-TABLE.skia", "svg_pathops._SVG_FILL_RULE_TO_SKIA_FILL_TYPE", str(got), f"fill-rule table is {got}, must be {want}", po)
    else:
        rep.ok("R-TABLE.skia", "svg_pathops._SVG_FILL_RULE_TO_SKIA_FILL_TYPE", "nonzero->WINDING, evenodd->EVEN_ODD")
    ct = folder.table("svg_pathops", "_SVG_CMD_TO_SKIA_FN")
    wantc = {"M": "Path.moveTo", "L": "Path.lineTo", "Q": "Path.quadTo", "C": "Path.cubicTo", "Z": "Path.close"}
    gotc = {k: (v.name if isinstance(v, Ref) else str(v)) for k, v in ct.items()}
    if gotc != wantc:
        rep.fail("R-TABLE.skia", "svg_pathops._SVG_CMD_TO_SKIA_FN", str(gotc), f"command table is {gotc}, must be {wantc}", po)
    else:
        rep.ok("R-TABLE.skia", "svg_pathops._SVG_CMD_TO_SKIA_FN", "M L Q C Z -> moveTo lineTo quadTo cubicTo close")
    vt = folder.table("svg_pathops", "_SKIA_CMD_TO_SVG_CMD")
    wantv = {"PathVerb.MOVE": "M", "PathVerb.LINE": "L", "PathVerb.QUAD": "Q", "PathVerb.CUBIC": "C", "PathVerb.CLOSE": "Z"}
    gotv = {}
    for k, v in vt.items():
        kk = k.name if isinstance(k, Ref) else str(k)
        gotv[kk] = v.args[0] if isinstance(v, Partial) and v.args and isinstance(v.func, Ref) and v.func.name == "_skia_pts_to_svg" else repr(v)
    if gotv != wantv:
        rep.fail("R-TABLE.skia", "svg_pathops._SKIA_CMD_TO_SVG_CMD", str(gotv), f"verb table is {gotv}, must be {wantv} (no conic entry)", po)
    else:
        rep.ok("R-TABLE.skia", "svg_pathops._SKIA_CMD_TO_SVG_CMD", "inverse of the command table on verbs, conics absent")
    sk = po.func("skia_path")
    t = unparse(sk)
    rep.saw("svg_pathops.skia_path", "svg_pathops.svg_commands", "svg_pathops._skia_pts_to_svg")
    if "_SVG_FILL_RULE_TO_SKIA_FILL_TYPE[fill_rule]" in t and "except KeyError" in t and "raise ValueError" in t and "pathops.Path(fillType=fill_type)" in t \
            and "if cmd not in _SVG_CMD_TO_SKIA_FN" in t and "_SVG_CMD_TO_SKIA_FN[cmd](sk_path, *args)" in t:
        rep.ok("R-TABLE.skia", "svg_pathops.skia_path", "unknown rule / command raises ValueError; path built with the looked-up fill type; builders called with the arguments in order")
    else:
        rep.fail("R-TABLE.skia", "svg_pathops.skia_path", "pathops.Path(fillType=_SVG_FILL_RULE_TO_SKIA_FILL_TYPE[fill_rule])", "skia_path no longer builds the path with the rule's fill type / validates commands", po, sk)
    pts = po.func("_skia_pts_to_svg")
    if "yield (svg_cmd, tuple((c for pt in points for c in pt)))" in unparse(pts):
        rep.ok("R-TABLE.skia", "svg_pathops._skia_pts_to_svg", "points flattened in order x0,y0,x1,y1,...")
    else:
        rep.fail("R-TABLE.skia", "svg_pathops._skia_pts_to_svg", "tuple(c for pt in points for c in pt)", "Skia points are no longer flattened in x,y order", po, pts)

    # ---- _do_pathop
    fn = po.func("_do_pathop")
    F = "svg_pathops._do_pathop"
    rep.saw(F)
    t = unparse(fn)
    first = [n for n in walk_no_nested(fn) if isinstance(n, ast.Assign) and isinstance(n.value, ast.Call) and call_name(n.value) == "skia_path"
             and not isinstance(parent(n), ast.For)]
    if first and [unparse(a) for a in first[0].value.args] == ["svg_cmd_seqs[0]", "fill_rules[0]"]:
        rep.ok("R-GUARD.do_pathop", f"{F}: first operand built with fill_rules[0]", "", True)
    else:
        rep.fail("R-GUARD.do_pathop", F, "sk_path = skia_path(svg_cmd_seqs[0], fill_rules[0])", "the first operand is not built with its own fill rule", po, fn)
    loops = [l for l in walk_no_nested(fn) if isinstance(l, ast.For)]
    ok_loop = False
    for l in loops:
        if unparse(l.iter) == "zip(svg_cmd_seqs[1:], fill_rules[1:])":
            body = unparse(l)
            tgt = unparse(l.target)
            names = [e.id for e in l.target.elts] if isinstance(l.target, ast.Tuple) else []
            if len(names) == 2 and f"skia_path({names[0]}, {names[1]})" in body:
                ops = [c for c in ast.walk(l) if isinstance(c, ast.Call) and call_name(c) == "pathops.op"]
                if ops and [unparse(a) for a in ops[0].args[:3]] == ["sk_path", "sk_path2", "op"] and _true_kw(ops[0], "fix_winding") \
                        and any(isinstance(s, ast.Assign) and unparse(s.targets[0]) == "sk_path" and s.value is ops[0] for s in l.body):
                    if not any(isinstance(x, (ast.Break, ast.Continue, ast.Return)) for x in ast.walk(l)):
                        ok_loop = True
    if ok_loop:
        rep.ok("R-GUARD.do_pathop", f"{F}: sk_path = pathops.op(sk_path, skia_path(cmds_i, rule_i), op, fix_winding=True) for every remaining operand, in order", "left fold: difference = first minus the rest", True)
    else:
        rep.fail("R-GUARD.do_pathop", F, "for svg_cmds, fill_rule in zip(svg_cmd_seqs[1:], fill_rules[1:]): sk_path = pathops.op(sk_path, skia_path(svg_cmds, fill_rule), op, fix_winding=True)",
                 "the pairwise fold changed: operands are not paired with their own rules in order, an operand can be skipped, or fix_winding is off", po, fn)
    # final simplify on every path to a value-returning return
    rets = [r for r in walk_no_nested(fn) if isinstance(r, ast.Return) and r.value is not None]
    simp = [c for c in ast.walk(fn) if isinstance(c, ast.Call) and call_name(c) == "sk_path.simplify"]
    ok_final = bool(simp) and all(_true_kw(c, "fix_winding") for c in simp) and len(rets) == 1 and unparse(rets[0].value) == "svg_commands(sk_path)" \
        and all(parent(parent(c)) is fn or isinstance(parent(parent(c)), ast.For) and parent(c) in parent(parent(c)).orelse for c in simp)
    early = [r for r in walk_no_nested(fn) if isinstance(r, ast.Return) and r.value is None]
    guards_ok = all(isinstance(parent(r), ast.If) and unparse(parent(r).test) == "not svg_cmd_seqs" for r in early)
    handlers = [h for h in ast.walk(fn) if isinstance(h, ast.ExceptHandler)]
    if ok_final and guards_ok and not handlers:
        rep.ok("R-GUARD.do_pathop", f"{F}: the only value return is svg_commands(sk_path) after an unconditional simplify(fix_winding=True)", "also for a single operand (for..else without break)", True)
    else:
        rep.fail("R-GUARD.do_pathop", F, "sk_path.simplify(fix_winding=True); return svg_commands(sk_path)",
                 "a result can be returned without the final simplify(fix_winding=True) (or an operand is returned as is, or an error is swallowed): "
                 "its nonzero and evenodd interiors may differ", po, fn)
    if "assert len(svg_cmd_seqs) == len(fill_rules)" in t:
        rep.ok("R-GUARD.do_pathop", f"{F}: one rule per operand asserted")
    # ---- operations pass their PathOp
    for nm, op in (("union", "UNION"), ("intersection", "INTERSECTION"), ("difference", "DIFFERENCE")):
        f = po.func(nm)
        rep.saw(f"svg_pathops.{nm}")
        body = [s for s in f.body if not (isinstance(s, ast.Expr) and isinstance(s.value, ast.Constant))]
        if len(body) == 1 and isinstance(body[0], ast.Return) and unparse(body[0].value) == f"_do_pathop(pathops.PathOp.{op}, svg_cmd_seqs, fill_rules)":
            rep.ok("R-SITE.pathop-wrappers", f"svg_pathops.{nm}: _do_pathop(PathOp.{op}, operands, rules)")
        else:
            rep.fail("R-SITE.pathop-wrappers", f"svg_pathops.{nm}", f"return _do_pathop(pathops.PathOp.{op}, svg_cmd_seqs, fill_rules)",
                     f"{nm} no longer is exactly the fold of PathOp.{op} over its operands (a special case bypasses the pairwise fold/simplify)", po, f)
    ro = po.func("remove_overlaps")
    t = unparse(ro)
    if "skia_path(svg_cmds, fill_rule=fill_rule)" in t and "sk_path.simplify(fix_winding=True)" in t and "return svg_commands(sk_path)" in t:
        rep.ok("R-SITE.pathop-wrappers", "svg_pathops.remove_overlaps: path built with the caller's rule, simplified, then reported")
    else:
        rep.fail("R-SITE.pathop-wrappers", "svg_pathops.remove_overlaps", "skia_path(svg_cmds, fill_rule=fill_rule); simplify(fix_winding=True)", "remove_overlaps no longer interprets the path under the caller's rule before simplifying", po, ro)
    pa = po.func("path_area")
    t = unparse(pa)
    if "skia_path(svg_cmds, fill_rule=fill_rule)" in t and "sk_path.simplify(fix_winding=True)" in t and "return sk_path.area" in t:
        rep.ok("R-SITE.pathop-wrappers", "svg_pathops.path_area: area read after simplify(fix_winding=True) under the caller's rule")
    else:
        rep.fail("R-SITE.pathop-wrappers", "svg_pathops.path_area", "sk_path.simplify(fix_winding=True); return sk_path.area", "path_area no longer simplifies with fix_winding under the caller's rule", po, pa)
    # shape-level wrappers
    for nm, rules in (("union", "[s.clip_rule for s in shapes]"), ("difference", "[s.clip_rule for s in shapes]")):
        f = st.func(nm)
        rep.saw(f"svg_types.{nm}")
        body = [s for s in f.body if not (isinstance(s, ast.Expr) and isinstance(s.value, ast.Constant))]
        want = f"svg_pathops.{nm}([s.as_cmd_seq() for s in shapes], {rules})"
        if len(body) == 1 and isinstance(body[0], ast.Return) and unparse(body[0].value) == want:
            rep.ok("R-SITE.pathop-wrappers", f"svg_types.{nm}: every shape paired with its clip_rule")
        else:
            rep.fail("R-SITE.pathop-wrappers", f"svg_types.{nm}", f"return {want}", f"{nm} of shapes no longer sends every operand, with its own clip_rule, through svg_pathops.{nm}", st, f)
    f = st.func("intersection")
    t = unparse(f)
    if "if fill_rules is None:" in t and "fill_rules = [s.clip_rule for s in shapes]" in t and "return svg_pathops.intersection([s.as_cmd_seq() for s in shapes], fill_rules)" in t:
        rep.ok("R-SITE.pathop-wrappers", "svg_types.intersection: explicit rules or clip_rule per operand")
    else:
        rep.fail("R-SITE.pathop-wrappers", "svg_types.intersection", "svg_pathops.intersection([s.as_cmd_seq() for s in shapes], fill_rules)", "intersection of shapes changed its operand/rule pairing", st, f)
    f = st.func("SVGPath.remove_overlaps")
    if "svg_pathops.remove_overlaps(self.as_cmd_seq(), fill_rule=self.fill_rule)" in unparse(f) and "target.fill_rule = target.clip_rule = 'nonzero'" in unparse(f):
        rep.ok("R-SITE.pathop-wrappers", "svg_types.SVGPath.remove_overlaps: own fill_rule in, nonzero out")
    else:
        rep.fail("R-SITE.pathop-wrappers", "svg_types.SVGPath.remove_overlaps", "svg_pathops.remove_overlaps(self.as_cmd_seq(), fill_rule=self.fill_rule)", "remove_overlaps no longer passes the path's own fill rule", st, f)
    # every pathops.op / simplify in the module has fix_winding=True
    n = 0
    for c in ast.walk(po.tree):
        if isinstance(c, ast.Call) and (call_name(c) == "pathops.op" or call_name(c).endswith(".simplify")):
            n += 1
            if not _true_kw(c, "fix_winding"):
                rep.fail("R-GUARD.do_pathop", f"svg_pathops.{_fn(c)}", c, "Skia operation without fix_winding=True: the result's interior may depend on the fill rule it is filled with", po, c)
    rep.floor("pathops.op / simplify call sites", n, 3)
    # ---- error discipline
    roots = [("svg_pathops", x) for x in ("union", "intersection", "difference", "remove_overlaps")] + [("svg_types", x) for x in ("union", "intersection", "difference", "SVGPath.remove_overlaps")]
    closure = {k for k in res.reachable_from(roots, precise=True) if k[0] in ("svg_pathops",) or k in roots}
    rep.floor("functions in the closure of the boolean operations", len(closure), 9)
    for k in sorted(closure):
        f = res.func(k)
        rep.saw(f"{k[0]}.{k[1]}")
        for h in ast.walk(f):
            if isinstance(h, ast.ExceptHandler):
                nm = unparse(h.type) if h.type is not None else "<bare>"
                if nm in ("KeyError",) and any(isinstance(x, ast.Raise) for x in h.body):
                    continue
                rep.fail("R-EFFECT.pathops-errors", f"{k[0]}.{k[1]}", f"except {nm}", "an exception handler inside the closure of the boolean operations: a Skia failure "
                         "would yield a (wrong) path instead of an error", repo[k[0]], h)
    allowed = {("svg_pathops", "stroke"): "falls back to the unsimplified outline (issue 192)", ("svg_types", "SVGShape.might_paint"): "answers 'may paint' (issue 192)"}
    for mod in repo.modules.values():
        for q, f in mod.functions.items():
            for h in walk_no_nested(f):
                if isinstance(h, ast.ExceptHandler) and h.type is not None and ("PathOpsError" in unparse(h.type) or unparse(h.type) in ("Exception", "BaseException")):
                    if (mod.name, q) in allowed:
                        rep.ok("R-EFFECT.pathops-errors", f"{mod.name}.{q}: except {unparse(h.type)}", "frozen: " + allowed[(mod.name, q)])
                    else:
                        rep.fail("R-EFFECT.pathops-errors", f"{mod.name}.{q}", f"except {unparse(h.type)}", "new handler for Skia errors outside the two documented ones", mod, h)
                if isinstance(h, ast.ExceptHandler) and h.type is None:
                    rep.fail("R-EFFECT.pathops-errors", f"{mod.name}.{q}", "except:", "bare except", mod, h)


def _true_kw(call, name) -> bool:
    v = kwarg(call, name)
    return isinstance(v, ast.Constant) and v.value is True


def _fn(node):
    p = node
    while p is not None:
        if isinstance(p, ast.FunctionDef):
            return getattr(p, "_qualname", p.name)
        p = parent(p)
    return "<module>"


_P = "svg_pathops"
VARIANTS = [
    Variant("fill-type table swapped", [Edit(_P, None, '"nonzero": pathops.FillType.WINDING,\n    "evenodd": pathops.FillType.EVEN_ODD,', '"nonzero": pathops.FillType.EVEN_ODD,\n    "evenodd": pathops.FillType.WINDING,')],
            [("R-TABLE.skia", "_SVG_FILL_RULE")]),
    Variant("rules shifted by one", [Edit(_P, "_do_pathop", "zip(svg_cmd_seqs[1:], fill_rules[1:])", "zip(svg_cmd_seqs[1:], fill_rules)")], [("R-GUARD.do_pathop", "_do_pathop")]),
    Variant("fix_winding dropped", [Edit(_P, "_do_pathop", "sk_path = pathops.op(sk_path, sk_path2, op, fix_winding=True)", "sk_path = pathops.op(sk_path, sk_path2, op)")],
            [("R-GUARD.do_pathop", "_do_pathop")]),
    Variant("break in the fold", [Edit(_P, "_do_pathop", "sk_path = pathops.op(sk_path, sk_path2, op, fix_winding=True)\n", "sk_path = pathops.op(sk_path, sk_path2, op, fix_winding=True)\n        break\n")],
            [("R-GUARD.do_pathop", "_do_pathop")]),
    Variant("pathops.op errors swallowed", [Edit(_P, "_do_pathop", "        sk_path = pathops.op(sk_path, sk_path2, op, fix_winding=True)\n",
                                                  "        try:\n            sk_path = pathops.op(sk_path, sk_path2, op, fix_winding=True)\n        except pathops.PathOpsError:\n            pass\n")],
            [("R-", "_do_pathop")]),
    Variant("union concatenates contours", [Edit(_P, "union", "    return _do_pathop(pathops.PathOp.UNION, svg_cmd_seqs, fill_rules)",
                                                  "    if len(set(fill_rules)) == 1 and svg_cmd_seqs:\n        return remove_overlaps([c for s in svg_cmd_seqs for c in s], fill_rules[0])\n    return _do_pathop(pathops.PathOp.UNION, svg_cmd_seqs, fill_rules)")],
            [("R-SITE.pathop-wrappers", "union")]),
    Variant("single nonzero shape returned as is", [Edit("svg_types", "union", "    return svg_pathops.union(", "    shapes = list(shapes)\n    if len(shapes) == 1 and shapes[0].clip_rule == 'nonzero':\n        return shapes[0].as_cmd_seq()\n    return svg_pathops.union(")],
            [("R-SITE.pathop-wrappers", "union")]),
    Variant("difference uses fill_rule", [Edit("svg_types", "difference", "[s.clip_rule for s in shapes]", "[s.fill_rule for s in shapes]")], [("R-SITE.pathop-wrappers", "difference")]),
    Variant("Q mapped to cubicTo", [Edit(_P, None, '"Q": pathops.Path.quadTo,', '"Q": pathops.Path.cubicTo,')], [("R-TABLE.skia", "_SVG_CMD_TO_SKIA_FN")]),
    Variant("path_area without fix_winding for evenodd", [Edit(_P, "path_area", "sk_path.simplify(fix_winding=True)", 'sk_path.simplify(fix_winding=fill_rule == "nonzero")')],
            [("R-", "path_area")]),
    Variant("silent: docstring added", [Edit(_P, "union", "    return _do_pathop(pathops.PathOp.UNION, svg_cmd_seqs, fill_rules)", '    """Union of the operands."""\n    return _do_pathop(pathops.PathOp.UNION, svg_cmd_seqs, fill_rules)')], silent=True),
]

"""C04 - strokes are rendered into equivalent filled outlines drawn above the fill (bookkeeping clauses)."""
from __future__ import annotations

import ast

from sa import spec
from sa.core import AnalysisError, Repo, Report, call_name, kwarg, parent, unparse, walk_no_nested
from sa.fold import Folder, Ref
from sa.pathsem import PathData, install_path_hooks, new_path
from sa.poly import RF
from sa.selftest import Edit, Variant
from sa.sym import ClassRef, Cond, Interp, PyCallable, Rec, SymStr, Unknown, explore, method_of, to_rf

from sa.texts import T as _TX

EXPLANATION = _TX["C04"]["explanation"] + " Not decided: " + _TX["C04"]["not_decided"] + "."
ASSUMPTIONS = _TX["C04"]["assumptions"]
P = "C04"
S = RF.sym


def run(repo: Repo, rep: Report):
    svg = repo["svg"]
    st = repo["svg_types"]
    po = repo["svg_pathops"]
    folder = Folder(repo)
    for rid, txt in [
        ("R-ORDER.stroke-first", "_simplify interpreted on schematic documents: the outline of a stroked shape is computed from its untransformed geometry, then transformed and clipped like the fill piece, and follows it in document order"),
        ("R-CASE.stroke-split", "SVG._stroke moves opacities, paints, rules and ids as specified (symbolic interpretation)"),
        ("R-TABLE.cap-join", "svg_pathops.stroke interpreted against the engine model: cap / join keywords reach the stroker as the same-named Skia members, all parameters in the stroker's order; unknown keywords raise"),
        ("R-CASE.dash", "stroke_commands parses dash arrays per SVG and passes every stroke parameter under its own name, unmodified"),
        ("R-SITE.skia-stroke", "svg_pathops.stroke argument order, conic conversion at the given tolerance, simplify with documented fallback"),
        ("R-SITE.tolerance", "SVG.tolerance interpreted on documents with / without a view box; the stroker receives the document's tolerance and the cascaded stroke parameters"),
    ]:
        rep.rule(rid, txt)
    from sa.rules import sem, sempath
    sem.check_simplify(repo, rep, {"stroke-order": "R-ORDER.stroke-first", "stroke-args": "R-SITE.tolerance"})
    _check_split(repo, rep)
    sempath.check_stroke(repo, rep, {"args": "R-TABLE.cap-join", "post": "R-SITE.skia-stroke"})
    _check_dash(repo, rep)
    _check_tolerance(repo, rep)


def _check_tolerance(repo, rep):
    """SVG.tolerance interpreted on documents with and without a view box."""
    from sa.rules import sem
    from sa.dom import El
    from sa.machine import make_svg, run, ok_outcomes
    from sa.sym import method_of
    from fractions import Fraction
    svg = repo["svg"]
    F = "svg.SVG.tolerance"
    cases = [({"viewBox": "0 0 128 128"}, Fraction(128, 1000)), ({"viewBox": "0 0 200 100"}, Fraction(1, 10)), ({"viewBox": "-50 -50 30 60"}, Fraction(3, 100)),
             ({"width": "64", "height": "32"}, Fraction(32, 1000)), ({}, Fraction(1, 10))]
    probs = []
    for attrs, want in cases:
        def body(it, a, k):
            return it.getattr(a[0], "tolerance")
        outs = ok_outcomes(run(repo, body, lambda attrs=attrs: ([make_svg(El("svg", dict(attrs), [El("path", {"d": sem.pd(("M", (0, 0)))})]))], {})), F)
        for o in outs:
            if o.raised:
                probs.append(f"{attrs}: raises {o.raised}")
                continue
            try:
                got = Fraction(o.value) if not hasattr(o.value, "const_value") else o.value.const_value()
            except (TypeError, ValueError):
                probs.append(f"{attrs}: tolerance is {o.value!r}")
                continue
            if abs(got - want) > Fraction(1, 10 ** 9):
                probs.append(f"<svg {attrs}>: tolerance is {float(got)}; 0.1% of the shorter side of the view box (0.1 without one) is {float(want)}")
    if probs:
        rep.fail("R-SITE.tolerance", "svg.SVG._default_tolerance", "tolerance of documents with / without a view box", f"{len(probs)} of {len(cases)} documents; first: {probs[0]}", svg, svg.func("SVG._default_tolerance"))
    else:
        rep.ok("R-SITE.tolerance", F, f"{len(cases)} documents (viewBox, width/height only, neither): 0.1% of the shorter side, default 0.1; the stroker receives it (checked on the interpreted _simplify)", True)


def _shape(repo, **over):
    fields = dict(id="shape-id", fill=SymStr("<fill>"), stroke=SymStr("<stroke>"), opacity=S("o"), fill_opacity=S("fo"), stroke_opacity=S("so"),
                  stroke_width=S("sw"), stroke_linecap=SymStr("<cap>"), stroke_linejoin=SymStr("<join>"), stroke_miterlimit=S("ml"),
                  stroke_dasharray=SymStr("<dashes>"), stroke_dashoffset=S("doff"), fill_rule=SymStr("<fr>"), clip_rule=SymStr("<cr>"))
    fields.update(over)
    return new_path(repo, [("M", (S("x0"), S("y0"))), ("L", (S("x1"), S("y1")))], **fields)


def _check_split(repo, rep):
    svg = repo["svg"]
    F = "svg.SVG._stroke"
    rep.saw(F)
    fn = method_of(repo, "svg", "SVG", "_stroke")
    OUTLINE = [("M", (S("ox"), S("oy"))), ("Z", ())]

    def setup(it):
        install_path_hooks(it)
        it.hooks[("svg", "SVG._default_tolerance")] = lambda i, a, k: S("tol")
        it.hooks[("svg_types", "SVGShape.stroke_commands")] = lambda i, a, k: list(OUTLINE)
        it.hooks[("svg_types", "SVGShape.might_paint")] = lambda i, a, k: Cond("might_paint", (SymStr("fill piece"),))

    def fresh():
        me = Rec(ClassRef("svg", "SVG"), {"svg_root": Unknown("tree"), "elements": []}, mutable=True)
        return ([me, _shape(repo)], {})

    outs = explore(repo, fn, [], fresh_args=fresh, setup=setup)
    n_two = n_one = 0
    for o in outs:
        if o.undecided:
            raise AnalysisError(f"{F}: evaluator undecided: {o.undecided}")
        if o.raised:
            if o.raised == "AssertionError":
                continue
            rep.fail("R-CASE.stroke-split", F, "_stroke", f"raises {o.raised}", svg, svg.func("SVG._stroke"))
            continue
        v = o.value
        pieces = list(v)
        probs = []
        paints = None
        for c, val in o.decisions:
            if "might_paint" in repr(c):
                paints = (not val) if getattr(c, "op", "") == "not" else val
        stroke_piece = pieces[-1]
        fill_piece = pieces[0] if len(pieces) == 2 else None
        if len(pieces) == 2:
            n_two += 1
            if not paints:
                probs.append("two pieces returned although the fill piece cannot paint")
        elif len(pieces) == 1:
            n_one += 1
            if paints:
                probs.append("the fill piece is dropped although it may paint")
        else:
            probs.append(f"{len(pieces)} pieces")
        sp = stroke_piece.f
        def eq(a, b):
            try:
                return to_rf(a).equals(b)
            except TypeError:
                return False
        if not eq(sp["opacity"], S("o") * S("so")):
            probs.append(f"stroke piece opacity is {sp['opacity']}, must be opacity*stroke-opacity")
        if repr(sp["fill"]) != "<stroke>":
            probs.append(f"stroke piece fill is {sp['fill']!r}, must be the stroke paint")
        if sp["fill_opacity"] not in (1, 1.0) and not eq(sp["fill_opacity"], 1):
            probs.append(f"stroke piece fill-opacity is {sp['fill_opacity']}, must be 1")
        if sp["fill_rule"] != "nonzero" or sp["clip_rule"] != "nonzero":
            probs.append("stroke piece rules must be nonzero (Skia's stroker output)")
        if sp["stroke"] != "none" or not eq(sp["stroke_opacity"], 1) or not eq(sp["stroke_width"], 1):
            probs.append("stroke piece still carries stroke properties")
        if not isinstance(sp["d"], PathData) or repr(sp["d"].cmds) != repr(OUTLINE):
            probs.append("stroke piece geometry is not the outline returned by stroke_commands")
        if fill_piece is not None:
            fp = fill_piece.f
            if fill_piece is stroke_piece:
                probs.append("fill piece and stroke piece are the same object")
            if not eq(fp["opacity"], S("o") * S("fo")):
                probs.append(f"fill piece opacity is {fp['opacity']}, must be opacity*fill-opacity")
            if not eq(fp["fill_opacity"], 1):
                probs.append("fill piece fill-opacity must be reset to 1")
            if repr(fp["fill"]) != "<fill>":
                probs.append("fill piece lost its fill")
            if fp["stroke"] != "none":
                probs.append("fill piece still has a stroke")
            if not isinstance(fp["d"], PathData) or [c for c, _ in fp["d"].cmds] != ["M", "L"]:
                probs.append("fill piece geometry changed")
            if fp["id"] != "" or sp["id"] != "":
                probs.append("ids are not cleared although one shape became two")
            if repr(fp["fill_rule"]) != "<fr>":
                probs.append("fill piece fill-rule changed")
        if probs:
            for p in probs:
                rep.fail("R-CASE.stroke-split", F, p, f"{p} (path: {o.cond_text()[:80]})", svg, svg.func("SVG._stroke"))
        else:
            rep.ok("R-CASE.stroke-split", f"{F} [{len(pieces)} piece(s)]", "opacities multiplied before the reset, paints moved, rules, ids, geometry as specified", True)
    if n_two == 0 or n_one == 0:
        rep.fail("R-CASE.stroke-split", F, "return (shape, stroke) / (stroke,)", "expected both outcomes: (fill, stroke) when the fill piece may paint, (stroke,) otherwise", svg, svg.func("SVG._stroke"))


def _check_dash(repo, rep):
    st = repo["svg_types"]
    F = "svg_types.SVGShape.stroke_commands"
    rep.saw(F)
    fn = method_of(repo, "svg_types", "SVGShape", "stroke_commands")
    captured = {}

    def setup(it):
        install_path_hooks(it)
        it.hooks[("svg_types", "SVGShape.as_cmd_seq")] = lambda i, a, k: "<cmd-seq>"

        def stroke(i, a, k):
            captured["args"], captured["kw"] = list(a), dict(k)
            return "<outline>"

        it.hooks[("svg_pathops", "stroke")] = stroke

    sig = [a.arg for a in repo["svg_pathops"].func("stroke").args.args]
    want_sig = ["svg_cmds", "svg_linecap", "svg_linejoin", "stroke_width", "stroke_miterlimit", "tolerance", "dash_array", "dash_offset"]
    if sig != want_sig:
        rep.fail("R-CASE.dash", "svg_pathops.stroke", f"def stroke({', '.join(sig)})", f"signature changed from {want_sig}", repo["svg_pathops"], repo["svg_pathops"].func("stroke"))
        return
    cases = {"none": [], "5": [5, 5], "5,3": [5, 3], "5 3": [5, 3], "5, 3": [5, 3], "5,3,2": [5, 3, 2, 5, 3, 2], "1.5 2.5 3 4": [1.5, 2.5, 3, 4], "4 , 1 , 2": [4, 1, 2, 4, 1, 2]}
    bad = []
    for dashes, want in cases.items():
        captured.clear()
        outs = explore(repo, fn, [], fresh_args=lambda: ([_shape(repo, stroke_dasharray=dashes), S("tol")], {}), setup=setup)
        for o in outs:
            if o.undecided:
                raise AnalysisError(f"{F}: evaluator undecided: {o.undecided}")
            if o.raised:
                bad.append((dashes, f"raises {o.raised}"))
                continue
            a = dict(zip(sig, captured.get("args", [])))
            a.update(captured.get("kw", {}))
            got = a.get("dash_array")
            if not isinstance(got, (list, tuple)) or len(got) != len(want) or not all(to_rf(x).equals(y) for x, y in zip(got, want)):
                bad.append((dashes, f"dash array {got}, SVG gives {want}"))
            exp = {"svg_cmds": "'<cmd-seq>'", "svg_linecap": "<cap>", "svg_linejoin": "<join>", "stroke_width": "sw", "stroke_miterlimit": "ml",
                   "tolerance": "tol", "dash_offset": "doff"}
            for k_, v_ in exp.items():
                if repr(a.get(k_)) != v_:
                    bad.append((dashes, f"argument {k_} of svg_pathops.stroke receives {a.get(k_)!r}; it must be the shape's own {k_.replace('svg_', 'stroke_')} unmodified"))
    if bad:
        d, msg = bad[0]
        rep.fail("R-CASE.dash", F, f"stroke-dasharray={d!r}", f"{len(bad)} problems over {len(cases)} dash arrays; first: {msg}", st, st.func("SVGShape.stroke_commands"))
    else:
        rep.ok("R-CASE.dash", F, f"{len(cases)} literal dash arrays: none -> [], comma/space lists, odd length repeated; all eight arguments passed under their own names, unmodified", True)


_S = "svg"
VARIANTS = [
    Variant("stroke reset before the opacity products", [Edit(_S, "SVG._stroke", "        # a few attributes move in interesting ways\n", "        for cleanmeup in (shape, stroke):\n            _reset_attrs(cleanmeup, lambda field: field.name.startswith(\"stroke\"))\n        # a few attributes move in interesting ways\n")],
            [("R-CASE.stroke-split", "_stroke")]),
    Variant("round and square caps swapped", [Edit("svg_pathops", None, '"round": pathops.LineCap.ROUND_CAP,\n    "square": pathops.LineCap.SQUARE_CAP,', '"round": pathops.LineCap.SQUARE_CAP,\n    "square": pathops.LineCap.ROUND_CAP,')],
            [("R-TABLE.cap-join", "stroke")]),
    Variant("odd dash arrays not repeated", [Edit("svg_types", "SVGShape.stroke_commands", "        if len(dash_array) % 2 != 0:\n            dash_array.extend(dash_array)\n", "")], [("R-CASE.dash", "stroke_commands")]),
    Variant("dash offset before dash array", [Edit("svg_types", "SVGShape.stroke_commands", "            dash_array,\n            self.stroke_dashoffset,\n", "            self.stroke_dashoffset,\n            dash_array,\n")],
            [("R-CASE.dash", "stroke_commands")]),
    Variant("stroke returned below the fill", [Edit(_S, "SVG._stroke", "        return (shape, stroke)", "        return (stroke, shape)")], [("R-CASE.stroke-split", "_stroke")]),
    Variant("dash offset reduced modulo the listed sum", [Edit("svg_types", "SVGShape.stroke_commands", "        if len(dash_array) % 2 != 0:", "        dash_offset = self.stroke_dashoffset % sum(dash_array) if dash_array else self.stroke_dashoffset\n        if len(dash_array) % 2 != 0:"),
                                                          Edit("svg_types", "SVGShape.stroke_commands", "            dash_array,\n            self.stroke_dashoffset,\n", "            dash_array,\n            dash_offset,\n")],
            [("R-CASE.dash", "stroke_commands")]),
    Variant("ids kept on both pieces", [Edit(_S, "SVG._stroke", "        shape.id = stroke.id = \"\"\n", "")], [("R-CASE.stroke-split", "_stroke")]),
    Variant("stroke piece built in place", [Edit(_S, "SVG._stroke", "stroke = shape.as_path().update_path(shape.stroke_commands(self.tolerance))", "stroke = shape.as_path().update_path(shape.stroke_commands(self.tolerance), inplace=True)")],
            [("R-CASE.stroke-split", "_stroke")]),
    Variant("transform before stroking for uniform scales", [Edit(_S, "SVG._simplify", "                if paths[0].stroke != \"none\":\n                    paths = list(self._stroke(paths[0]))\n",
                                                                   "                if paths[0].stroke != \"none\" and context.transform.a == context.transform.d and context.transform.b == 0:\n                    paths = list(self._stroke(paths[0].apply_transform(context.transform)))\n                elif paths[0].stroke != \"none\":\n                    paths = list(self._stroke(paths[0]))\n")],
            [("R-ORDER.stroke-first", "_simplify")]),
    Variant("tolerance constant", [Edit(_S, "SVG._stroke", "shape.stroke_commands(self.tolerance)", "shape.stroke_commands(0.1)")], [("R-SITE.tolerance", "_simplify"), ("R-CASE", "_stroke")]),
    Variant("miterlimit and width swapped at Skia", [Edit("svg_pathops", "stroke", "sk_path.stroke(stroke_width, cap, join, stroke_miterlimit, dash_array, dash_offset)", "sk_path.stroke(stroke_miterlimit, cap, join, stroke_width, dash_array, dash_offset)")],
            [("R-TABLE.cap-join", "stroke")]),
    Variant("silent: products written without augmented assignment", [Edit(_S, "SVG._stroke", "        stroke.opacity *= stroke.stroke_opacity\n", "        stroke.opacity = stroke.stroke_opacity * stroke.opacity\n")], silent=True),
]

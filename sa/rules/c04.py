"""C04 - strokes are rendered into equivalent filled outlines drawn above the fill (bookkeeping clauses)."""
from __future__ import annotations

import ast

from sa import spec
from sa.core import AnalysisError, Repo, Report, call_name, kwarg, parent, unparse, walk_no_nested
from sa.fold import Folder, Ref
from sa.pathsem import PathData, install_path_hooks, new_path
from sa.poly import RF
from sa.selftest import Edit, Variant
from sa.sym import ClassRef, Cond, Interp, PyCallable, Rec, SymStr, Unknown, explore, method_of, to_rf

EXPLANATION = (
    "The outline region, caps/joins/dashes geometry and the 0.25-unit stroker resolution are Skia's and are not decided. Decided: (order) in "
    "_simplify the only stroking of a shape happens on the untransformed absolute path, guarded by stroke != none alone, before "
    "apply_transform and before clipping; (split bookkeeping, by abstract interpretation of SVG._stroke over symbolic opacities and paints) the "
    "stroke piece gets opacity*stroke-opacity, the stroke paint as fill, nonzero rules and default stroke fields; the fill piece keeps its "
    "geometry and fill, gets opacity*fill-opacity and fill-opacity 1; ids are cleared when one shape becomes two; the stroke piece follows the "
    "fill piece; (tables) line caps and joins map to the same-named Skia enums and unknown keywords raise; (stroke_commands, interpreted for "
    "literal dash arrays) 'none' -> [], comma/space separated lists, odd-length lists repeated, and each of the eight arguments of "
    "svg_pathops.stroke receives the field of the same name unmodified; svg_pathops.stroke hands width, cap, join, miter limit, dash array "
    "and dash offset to Skia in its signature order and converts conics at the tolerance derived from the viewBox."
)
ASSUMPTIONS = ["skia-pathops Path.stroke(width, cap, join, miter_limit, dash_array, dash_offset) signature (skia-pathops 0.9 API, trusted)"]
P = "C04"
S = RF.sym


def run(repo: Repo, rep: Report):
    svg = repo["svg"]
    st = repo["svg_types"]
    po = repo["svg_pathops"]
    folder = Folder(repo)
    for rid, txt in [
        ("R-ORDER.stroke-first", "_simplify strokes the untransformed path, guarded only by stroke != none, before transform and clip"),
        ("R-CASE.stroke-split", "SVG._stroke moves opacities, paints, rules and ids as specified (symbolic interpretation)"),
        ("R-TABLE.cap-join", "line cap / join tables map to the same-named Skia enums; unknown keywords raise"),
        ("R-CASE.dash", "stroke_commands parses dash arrays per SVG and passes every stroke parameter under its own name, unmodified"),
        ("R-SITE.skia-stroke", "svg_pathops.stroke argument order, conic conversion at the given tolerance, simplify with documented fallback"),
        ("R-SITE.tolerance", "the stroker tolerance is the viewBox-derived default tolerance"),
    ]:
        rep.rule(rid, txt)
    # ---- order in _simplify
    fn = svg.func("SVG._simplify")
    F = "svg.SVG._simplify"
    rep.saw(F)
    shape_if = [n for n in ast.walk(fn) if isinstance(n, ast.If) and unparse(n.test) == "_is_shape(el.tag)"]
    if not shape_if:
        raise AnalysisError("_simplify: shape branch not found")
    sb = shape_if[0].body
    strokes = [c for c in ast.walk(shape_if[0]) if isinstance(c, ast.Call) and call_name(c) in ("self._stroke",) or
               isinstance(c, ast.Call) and call_name(c).endswith((".stroke_commands", "svg_pathops.stroke"))]
    transforms = [c for c in ast.walk(shape_if[0]) if isinstance(c, ast.Call) and call_name(c).endswith(".apply_transform")]
    ok = False
    why = ""
    if len(strokes) == 1 and call_name(strokes[0]) == "self._stroke" and unparse(strokes[0].args[0]) == "paths[0]":
        g = parent(parent(parent(strokes[0]))) if isinstance(parent(strokes[0]), ast.Call) else parent(parent(strokes[0]))
        # climb to the enclosing If
        p = strokes[0]
        while p is not None and not isinstance(p, ast.If):
            p = parent(p)
        if p is not None and unparse(p.test) == "paths[0].stroke != 'none'" and p in sb and not p.orelse:
            init = [s for s in sb if isinstance(s, ast.Assign) and unparse(s.targets[0]) == "paths"]
            if init and unparse(init[0].value) == "[from_element(el).as_path().absolute(inplace=True)]" and sb.index(init[0]) < sb.index(p):
                if all(t.lineno > strokes[0].lineno for t in transforms):
                    ok = True
                else:
                    why = "a transform is applied before the shape is stroked"
            else:
                why = "the stroked path is not the shape's own untransformed absolute path"
        else:
            why = "the stroke step is guarded by more than `stroke != 'none'` or has an alternative branch"
    else:
        why = f"{len(strokes)} stroking call sites in the shape branch (exactly one self._stroke(paths[0]) expected)"
    if ok:
        rep.ok("R-ORDER.stroke-first", f"{F}: single self._stroke(paths[0]) under `stroke != none`, on the untransformed path, before any apply_transform", "", True)
    else:
        rep.fail("R-ORDER.stroke-first", F, "if paths[0].stroke != 'none': paths = list(self._stroke(paths[0]))",
                 f"{why}: the outline must be computed in the shape's own coordinate system so that outer transforms distort it as SVG prescribes", svg, shape_if[0])
    _check_split(repo, rep)
    # ---- tables
    for name, kws, suffix in (("_SVG_TO_SKIA_LINE_CAP", spec.LINECAPS, "_CAP"), ("_SVG_TO_SKIA_LINE_JOIN", spec.LINEJOINS, "_JOIN")):
        tb = folder.table("svg_pathops", name)
        rep.tables.add(f"svg_pathops.{name}")
        got = {k: (v.name.split(".")[-1] if isinstance(v, Ref) else str(v)) for k, v in tb.items()}
        want = {k: k.upper() + suffix for k in kws}
        if got != want:
            rep.fail("R-TABLE.cap-join", f"svg_pathops.{name}", str(got), f"table is {got}, SVG 1.1 keywords map to {want}", po)
        else:
            rep.ok("R-TABLE.cap-join", f"svg_pathops.{name}", f"{sorted(kws)} -> same-named Skia members")
    sk = po.func("stroke")
    t = unparse(sk)
    rep.saw("svg_pathops.stroke")
    if "cap = _SVG_TO_SKIA_LINE_CAP.get(svg_linecap, None)" in t and "join = _SVG_TO_SKIA_LINE_JOIN.get(svg_linejoin, None)" in t and t.count("raise ValueError") >= 2:
        rep.ok("R-TABLE.cap-join", "svg_pathops.stroke: unknown cap/join raise ValueError")
    else:
        rep.fail("R-TABLE.cap-join", "svg_pathops.stroke", "cap = _SVG_TO_SKIA_LINE_CAP.get(svg_linecap); if cap is None: raise ValueError", "unknown cap/join keywords are no longer rejected", po, sk)
    calls = [c for c in ast.walk(sk) if isinstance(c, ast.Call) and call_name(c) == "sk_path.stroke"]
    if calls and [unparse(a) for a in calls[0].args] == ["stroke_width", "cap", "join", "stroke_miterlimit", "dash_array", "dash_offset"]:
        rep.ok("R-SITE.skia-stroke", "svg_pathops.stroke: sk_path.stroke(width, cap, join, miterlimit, dash_array, dash_offset)")
    else:
        rep.fail("R-SITE.skia-stroke", "svg_pathops.stroke", "sk_path.stroke(stroke_width, cap, join, stroke_miterlimit, dash_array, dash_offset)",
                 "stroke parameters are not handed to Skia in its signature order", po, calls[0] if calls else sk)
    if "sk_path.convertConicsToQuads(tolerance)" in t:
        rep.ok("R-SITE.skia-stroke", "svg_pathops.stroke: conics converted at the caller's tolerance")
    else:
        rep.fail("R-SITE.skia-stroke", "svg_pathops.stroke", "sk_path.convertConicsToQuads(tolerance)", "conic conversion no longer uses the given tolerance", po, sk)
    if "skia_path(svg_cmds, fill_rule='nonzero')" in t and "backup = pathops.Path(sk_path)" in t and "sk_path = backup" in t and "return svg_commands(sk_path)" in t:
        rep.ok("R-SITE.skia-stroke", "svg_pathops.stroke: simplify(fix_winding) with fallback to the unsimplified outline")
    else:
        rep.fail("R-SITE.skia-stroke", "svg_pathops.stroke", "backup = pathops.Path(sk_path); try simplify; except PathOpsError: sk_path = backup", "stroke post-processing changed", po, sk)
    _check_dash(repo, rep)
    # ---- tolerance
    sf = svg.func("SVG._stroke")
    if "shape.stroke_commands(self.tolerance)" in unparse(sf):
        rep.ok("R-SITE.tolerance", "svg.SVG._stroke: stroke_commands(self.tolerance)")
    else:
        rep.fail("R-SITE.tolerance", "svg.SVG._stroke", "shape.stroke_commands(self.tolerance)", "the stroker is not given the document tolerance", svg, sf)
    tol = svg.func("SVG.tolerance")
    dt = svg.func("SVG._default_tolerance")
    if "return self._default_tolerance()" in unparse(tol) and "min(vbox.w, vbox.h) * _MAX_PCT_ERROR / 100" in unparse(dt) and "vbox = self.view_box()" in unparse(dt):
        rep.ok("R-SITE.tolerance", "svg.SVG.tolerance: min(viewBox w, h) * _MAX_PCT_ERROR / 100")
    else:
        rep.fail("R-SITE.tolerance", "svg.SVG._default_tolerance", "min(vbox.w, vbox.h) * _MAX_PCT_ERROR / 100", "tolerance is no longer derived from the viewBox", svg, dt)


def _shape(repo, **over):
    fields = dict(id="shape-id", fill=SymStr("<fill>"), stroke=SymStr("<stroke>"), opacity=S("o"), fill_opacity=S("fo"), stroke_opacity=S("so"),
                  stroke_width=S("sw"), stroke_linecap=SymStr("<cap>"), stroke_linejoin=SymStr("<join>"), stroke_miterlimit=S("ml"),
                  stroke_dasharray=SymStr("<dashes>"), stroke_dashoffset=S("doff"), fill_rule=SymStr("<fr>"), clip_rule=SymStr("<cr>"))
    fields.update(over)
    return new_path(repo, [("M", (S("x0"), S("y0"))), ("L", (S("x1"), S("y1")))], **fields)


def _check_split(repo, rep):
    svg = repo["svg"]
    F = "svg.SVG._stroke"
    rep.saw(F)
    fn = method_of(repo, "svg", "SVG", "_stroke")
    OUTLINE = [("M", (S("ox"), S("oy"))), ("Z", ())]

    def setup(it):
        install_path_hooks(it)
        it.hooks[("svg", "SVG._default_tolerance")] = lambda i, a, k: S("tol")
        it.hooks[("svg_types", "SVGShape.stroke_commands")] = lambda i, a, k: list(OUTLINE)
        it.hooks[("svg_types", "SVGShape.might_paint")] = lambda i, a, k: Cond("might_paint", (SymStr("fill piece"),))

    def fresh():
        me = Rec(ClassRef("svg", "SVG"), {"svg_root": Unknown("tree"), "elements": []}, mutable=True)
        return ([me, _shape(repo)], {})

    outs = explore(repo, fn, [], fresh_args=fresh, setup=setup)
    n_two = n_one = 0
    for o in outs:
        if o.undecided:
            raise AnalysisError(f"{F}: evaluator undecided: {o.undecided}")
        if o.raised:
            if o.raised == "AssertionError":
                continue
            rep.fail("R-CASE.stroke-split", F, "_stroke", f"raises {o.raised}", svg, svg.func("SVG._stroke"))
            continue
        v = o.value
        pieces = list(v)
        probs = []
        paints = None
        for c, val in o.decisions:
            if "might_paint" in repr(c):
                paints = (not val) if getattr(c, "op", "") == "not" else val
        stroke_piece = pieces[-1]
        fill_piece = pieces[0] if len(pieces) == 2 else None
        if len(pieces) == 2:
            n_two += 1
            if not paints:
                probs.append("two pieces returned although the fill piece cannot paint")
        elif len(pieces) == 1:
            n_one += 1
            if paints:
                probs.append("the fill piece is dropped although it may paint")
        else:
            probs.append(f"{len(pieces)} pieces")
        sp = stroke_piece.f
        def eq(a, b):
            try:
                return to_rf(a).equals(b)
            except TypeError:
                return False
        if not eq(sp["opacity"], S("o") * S("so")):
            probs.append(f"stroke piece opacity is {sp['opacity']}, must be opacity*stroke-opacity")
        if repr(sp["fill"]) != "<stroke>":
            probs.append(f"stroke piece fill is {sp['fill']!r}, must be the stroke paint")
        if sp["fill_opacity"] not in (1, 1.0) and not eq(sp["fill_opacity"], 1):
            probs.append(f"stroke piece fill-opacity is {sp['fill_opacity']}, must be 1")
        if sp["fill_rule"] != "nonzero" or sp["clip_rule"] != "nonzero":
            probs.append("stroke piece rules must be nonzero (Skia's stroker output)")
        if sp["stroke"] != "none" or not eq(sp["stroke_opacity"], 1) or not eq(sp["stroke_width"], 1):
            probs.append("stroke piece still carries stroke properties")
        if not isinstance(sp["d"], PathData) or repr(sp["d"].cmds) != repr(OUTLINE):
            probs.append("stroke piece geometry is not the outline returned by stroke_commands")
        if fill_piece is not None:
            fp = fill_piece.f
            if fill_piece is stroke_piece:
                probs.append("fill piece and stroke piece are the same object")
            if not eq(fp["opacity"], S("o") * S("fo")):
                probs.append(f"fill piece opacity is {fp['opacity']}, must be opacity*fill-opacity")
            if not eq(fp["fill_opacity"], 1):
                probs.append("fill piece fill-opacity must be reset to 1")
            if repr(fp["fill"]) != "<fill>":
                probs.append("fill piece lost its fill")
            if fp["stroke"] != "none":
                probs.append("fill piece still has a stroke")
            if not isinstance(fp["d"], PathData) or [c for c, _ in fp["d"].cmds] != ["M", "L"]:
                probs.append("fill piece geometry changed")
            if fp["id"] != "" or sp["id"] != "":
                probs.append("ids are not cleared although one shape became two")
            if repr(fp["fill_rule"]) != "<fr>":
                probs.append("fill piece fill-rule changed")
        if probs:
            for p in probs:
                rep.fail("R-CASE.stroke-split", F, p, f"{p} (path: {o.cond_text()[:80]})", svg, svg.func("SVG._stroke"))
        else:
            rep.ok("R-CASE.stroke-split", f"{F} [{len(pieces)} piece(s)]", "opacities multiplied before the reset, paints moved, rules, ids, geometry as specified", True)
    if n_two == 0 or n_one == 0:
        rep.fail("R-CASE.stroke-split", F, "return (shape, stroke) / (stroke,)", "expected both outcomes: (fill, stroke) when the fill piece may paint, (stroke,) otherwise", svg, svg.func("SVG._stroke"))


def _check_dash(repo, rep):
    st = repo["svg_types"]
    F = "svg_types.SVGShape.stroke_commands"
    rep.saw(F)
    fn = method_of(repo, "svg_types", "SVGShape", "stroke_commands")
    captured = {}

    def setup(it):
        install_path_hooks(it)
        it.hooks[("svg_types", "SVGShape.as_cmd_seq")] = lambda i, a, k: "<cmd-seq>"

        def stroke(i, a, k):
            captured["args"], captured["kw"] = list(a), dict(k)
            return "<outline>"

        it.hooks[("svg_pathops", "stroke")] = stroke

    sig = [a.arg for a in repo["svg_pathops"].func("stroke").args.args]
    want_sig = ["svg_cmds", "svg_linecap", "svg_linejoin", "stroke_width", "stroke_miterlimit", "tolerance", "dash_array", "dash_offset"]
    if sig != want_sig:
        rep.fail("R-CASE.dash", "svg_pathops.stroke", f"def stroke({', '.join(sig)})", f"signature changed from {want_sig}", repo["svg_pathops"], repo["svg_pathops"].func("stroke"))
        return
    cases = {"none": [], "5": [5, 5], "5,3": [5, 3], "5 3": [5, 3], "5, 3": [5, 3], "5,3,2": [5, 3, 2, 5, 3, 2], "1.5 2.5 3 4": [1.5, 2.5, 3, 4], "4 , 1 , 2": [4, 1, 2, 4, 1, 2]}
    bad = []
    for dashes, want in cases.items():
        captured.clear()
        outs = explore(repo, fn, [], fresh_args=lambda: ([_shape(repo, stroke_dasharray=dashes), S("tol")], {}), setup=setup)
        for o in outs:
            if o.undecided:
                raise AnalysisError(f"{F}: evaluator undecided: {o.undecided}")
            if o.raised:
                bad.append((dashes, f"raises {o.raised}"))
                continue
            a = dict(zip(sig, captured.get("args", [])))
            a.update(captured.get("kw", {}))
            got = a.get("dash_array")
            if not isinstance(got, (list, tuple)) or len(got) != len(want) or not all(to_rf(x).equals(y) for x, y in zip(got, want)):
                bad.append((dashes, f"dash array {got}, SVG gives {want}"))
            exp = {"svg_cmds": "'<cmd-seq>'", "svg_linecap": "<cap>", "svg_linejoin": "<join>", "stroke_width": "sw", "stroke_miterlimit": "ml",
                   "tolerance": "tol", "dash_offset": "doff"}
            for k_, v_ in exp.items():
                if repr(a.get(k_)) != v_:
                    bad.append((dashes, f"argument {k_} of svg_pathops.stroke receives {a.get(k_)!r}; it must be the shape's own {k_.replace('svg_', 'stroke_')} unmodified"))
    if bad:
        d, msg = bad[0]
        rep.fail("R-CASE.dash", F, f"stroke-dasharray={d!r}", f"{len(bad)} problems over {len(cases)} dash arrays; first: {msg}", st, st.func("SVGShape.stroke_commands"))
    else:
        rep.ok("R-CASE.dash", F, f"{len(cases)} literal dash arrays: none -> [], comma/space lists, odd length repeated; all eight arguments passed under their own names, unmodified", True)


_S = "svg"
VARIANTS = [
    Variant("stroke reset before the opacity products", [Edit(_S, "SVG._stroke", "        # a few attributes move in interesting ways\n", "        for cleanmeup in (shape, stroke):\n            _reset_attrs(cleanmeup, lambda field: field.name.startswith(\"stroke\"))\n        # a few attributes move in interesting ways\n")],
            [("R-CASE.stroke-split", "_stroke")]),
    Variant("round and square caps swapped", [Edit("svg_pathops", None, '"round": pathops.LineCap.ROUND_CAP,\n    "square": pathops.LineCap.SQUARE_CAP,', '"round": pathops.LineCap.SQUARE_CAP,\n    "square": pathops.LineCap.ROUND_CAP,')],
            [("R-TABLE.cap-join", "_SVG_TO_SKIA_LINE_CAP")]),
    Variant("odd dash arrays not repeated", [Edit("svg_types", "SVGShape.stroke_commands", "        if len(dash_array) % 2 != 0:\n            dash_array.extend(dash_array)\n", "")], [("R-CASE.dash", "stroke_commands")]),
    Variant("dash offset before dash array", [Edit("svg_types", "SVGShape.stroke_commands", "            dash_array,\n            self.stroke_dashoffset,\n", "            self.stroke_dashoffset,\n            dash_array,\n")],
            [("R-CASE.dash", "stroke_commands")]),
    Variant("stroke returned below the fill", [Edit(_S, "SVG._stroke", "        return (shape, stroke)", "        return (stroke, shape)")], [("R-CASE.stroke-split", "_stroke")]),
    Variant("dash offset reduced modulo the listed sum", [Edit("svg_types", "SVGShape.stroke_commands", "        if len(dash_array) % 2 != 0:", "        dash_offset = self.stroke_dashoffset % sum(dash_array) if dash_array else self.stroke_dashoffset\n        if len(dash_array) % 2 != 0:"),
                                                          Edit("svg_types", "SVGShape.stroke_commands", "            dash_array,\n            self.stroke_dashoffset,\n", "            dash_array,\n            dash_offset,\n")],
            [("R-CASE.dash", "stroke_commands")]),
    Variant("ids kept on both pieces", [Edit(_S, "SVG._stroke", "        shape.id = stroke.id = \"\"\n", "")], [("R-CASE.stroke-split", "_stroke")]),
    Variant("stroke piece built in place", [Edit(_S, "SVG._stroke", "stroke = shape.as_path().update_path(shape.stroke_commands(self.tolerance))", "stroke = shape.as_path().update_path(shape.stroke_commands(self.tolerance), inplace=True)")],
            [("R-CASE.stroke-split", "_stroke")]),
    Variant("transform before stroking for uniform scales", [Edit(_S, "SVG._simplify", "                if paths[0].stroke != \"none\":\n                    paths = list(self._stroke(paths[0]))\n",
                                                                   "                if paths[0].stroke != \"none\" and context.transform.a == context.transform.d and context.transform.b == 0:\n                    paths = list(self._stroke(paths[0].apply_transform(context.transform)))\n                elif paths[0].stroke != \"none\":\n                    paths = list(self._stroke(paths[0]))\n")],
            [("R-ORDER.stroke-first", "_simplify")]),
    Variant("tolerance constant", [Edit(_S, "SVG._stroke", "shape.stroke_commands(self.tolerance)", "shape.stroke_commands(0.1)")], [("R-SITE.tolerance", "_stroke"), ("R-CASE", "_stroke")]),
    Variant("miterlimit and width swapped at Skia", [Edit("svg_pathops", "stroke", "sk_path.stroke(stroke_width, cap, join, stroke_miterlimit, dash_array, dash_offset)", "sk_path.stroke(stroke_miterlimit, cap, join, stroke_width, dash_array, dash_offset)")],
            [("R-SITE.skia-stroke", "stroke")]),
    Variant("silent: products written without augmented assignment", [Edit(_S, "SVG._stroke", "        stroke.opacity *= stroke.stroke_opacity\n", "        stroke.opacity = stroke.stroke_opacity * stroke.opacity\n")], silent=True),
]

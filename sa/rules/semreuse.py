"""Semantic checks of the shape-reuse search (svg_reuse.affine_between): the search is interpreted with every geometric
helper replaced by an opaque token and the verification step `_try_affine` replaced by an oracle that answers both
ways; what is compared is the *provenance* of the reported transform on every path through the search."""
from __future__ import annotations

from typing import Dict, List

from sa.core import AnalysisError, Repo, Report
from sa.dom import AffTok, install_affine
from sa.pathsem import PathData, install_path_hooks
from sa.poly import RF
from sa.sym import ClassRef, Cond, Ext, PyCallable, Rec, Undecided, closure_of, explore, method_of


class Tok(Ext):
    def __init__(self, *term):
        self.term = tuple(term)

    def sym_copy(self):
        return self

    def sym_truth(self, it):
        return True

    def sym_eq(self, it, other):
        return isinstance(other, Tok) and repr(other) == repr(self)

    def sym_hashkey(self):
        return ("tok", repr(self))

    def sym_getattr(self, it, attr):
        if attr in ("x", "y"):
            return RF.sym(f"{self!r}.{attr}")
        if attr in ("norm", "almost_equals"):
            raise Undecided(f"vector.{attr} inside the search")
        raise Undecided(f"attribute {attr} of a geometric token")

    def __repr__(self):
        return f"{self.term[0]}({', '.join(map(repr, self.term[1:]))})"


def _shape(name):
    f = {"id": name, "clip_path": "", "clip_rule": "nonzero", "fill": "black", "fill_opacity": 1, "fill_rule": "nonzero", "stroke": "none", "stroke_width": 1,
         "stroke_linecap": "butt", "stroke_linejoin": "miter", "stroke_miterlimit": 4, "stroke_dasharray": "none", "stroke_dashoffset": 0, "stroke_opacity": 1,
         "opacity": 1, "transform": "", "style": "", "display": "inline", "d": PathData([("M", (RF.sym(name + "x"), RF.sym(name + "y"))), ("l", (1, 1))])}
    return Rec(ClassRef("svg_types", "SVGPath"), f, True)


def run_search(repo: Repo):
    """All paths through affine_between(s1, s2, tolerance) under an oracle verification step."""
    fn = closure_of(repo, "svg_reuse", "affine_between")
    outs = explore(repo, fn, [], fresh_args=lambda: ([_shape("s1"), _shape("s2"), RF.sym("tolerance")], {}), setup=lambda it: _install(it, {}), max_paths=4096)
    return outs, None


def check_search(repo: Repo, rep: Report, rules: Dict[str, str]):
    """rules: 'verified' (a reported transform was verified against (s1, s2, tolerance) on that path - or is the identity under equal
    outlines - or is a rounding of it that was itself verified), 'translation-first' (no bail-out before the exact translation was tried)"""
    ru = repo["svg_reuse"]
    F = "svg_reuse.affine_between"
    rep.saw(F, "svg_reuse._round", "svg_reuse._try_affine")
    fn = ru.func("affine_between")
    probs = {"verified": [], "translation-first": []}
    n = 0
    # one exploration per path: re-run with logging bound to the outcome
    logs = []

    def setup_factory():
        return None

    outcomes = []
    fnc = closure_of(repo, "svg_reuse", "affine_between")
    from sa.rules import semreuse as me
    work, _ = me.run_search(repo)
    # re-derive the log of each completed path by replaying its decisions
    for o in work:
        if o.undecided:
            raise AnalysisError(f"{F}: abstract machine cannot interpret this code: {o.undecided}")
        log = _replay(repo, o)
        n += 1
        verifs = [e for e in log if e[0] == "verify"]
        same = [e for e in log if e[0] == "same-outline"]
        path = " / ".join(f"{e[0]}={'yes' if e[2] else 'no'}" for e in log)
        if o.raised:
            if o.raised != "AssertionError":
                probs["verified"].append(f"raises {o.raised} on the path [{path}]")
            continue
        v = o.value
        if v is None:
            if not (same and same[0][2]) and not verifs:
                probs["translation-first"].append(f"the search gives up on the path [{path}] before any candidate was tried")
            elif verifs and "translate(" not in repr(verifs[0][1][0]):
                probs["translation-first"].append(f"the first candidate tried is {verifs[0][1][0]!r}, not the translation between the start points")
            continue
        if not isinstance(v, AffTok):
            probs["verified"].append(f"returns {v!r} on the path [{path}]")
            continue
        s1f, s2f = "friendly(shape(s1x))", "friendly(shape(s2x))"
        good = [e for e in verifs if e[2] and repr(e[1][0]) == repr(v) and repr(e[1][1]) == s1f and repr(e[1][2]) == s2f and repr(e[1][3]) == "tolerance"]
        if good and repr(v).startswith("Aff[round"):
            # a rounding is only as good as the candidate it was derived from: that one must have been verified too
            base = repr(v)[repr(v).index("[", 4) + 1:-2]
            if not any(e[2] and "*".join(e[1][0].app) == base for e in verifs if isinstance(e[1][0], AffTok)):
                good = []
        ident = (not v.app) and same and same[0][2] and {repr(same[0][1][0]), repr(same[0][1][1])} == {"shape(s1x)", "shape(s2x)"} and repr(same[0][1][2]) == "tolerance"
        # the unrounded candidate may be returned when no rounding verifies: it must itself have been verified
        if not good and not ident:
            tried = [repr(e[1][0]) for e in verifs if e[2]]
            probs["verified"].append(f"on the path [{path}] the search reports {v!r}, which was not verified against (s1, s2, tolerance) on that path (verified there: {tried or 'nothing'})")
        if verifs and "translate(" not in repr(verifs[0][1][0]):
            probs["translation-first"].append(f"the first candidate tried is {verifs[0][1][0]!r}, not the translation between the start points")
    what = {"verified": "every reported transform was verified on its path", "translation-first": "the exact translation is tried first"}
    for k, rid in rules.items():
        if probs[k]:
            u = list(dict.fromkeys(probs[k]))
            rep.fail(rid, F, what[k], f"{len(u)} of {n} paths; first: {u[0]}", ru, fn)
        else:
            rep.ok(rid, F + f" [{k}]", f"{n} paths through the search under an oracle verification step: {what[k]}", True)


def _replay(repo, outcome):
    """Log of one completed path (the decisions of the outcome replayed)."""
    from sa.sym import Interp
    from sa.rules import semreuse as me
    decisions = list(outcome.raw) if outcome.raw is not None else [v for _, v in outcome.decisions]
    box = {}
    fn = closure_of(repo, "svg_reuse", "affine_between")

    # build an interpreter exactly as run_search does and feed the recorded decisions
    holder = {}

    def setup(it):
        holder["it"] = it

    # reuse run_search's setup through a tiny shim
    res = me._run_one(repo, decisions)
    return res


def _run_one(repo, decisions):
    from sa.sym import Interp, NeedDecision, PyRaise
    fn = closure_of(repo, "svg_reuse", "affine_between")
    it = Interp(repo)
    it.decisions = list(decisions)
    logs = {}

    class _Box(dict):
        pass

    # same setup as run_search
    box = {}
    import types
    src_setup = run_search.__code__  # noqa: F841 (documentation: the setup below mirrors run_search)
    _install(it, box)
    try:
        it.call(fn, [_shape("s1"), _shape("s2"), RF.sym("tolerance")], {})
    except (PyRaise, Undecided, NeedDecision):
        pass
    return box["log"]


def _install(it, box):
    install_affine(it)
    it.afftok_round_distinct = True
    install_path_hooks(it)
    log = []
    box["log"] = log
    R = "svg_reuse"

    friendly_cmds = {}

    def ident(shape):
        if isinstance(shape, Rec):
            d = shape.f.get("d")
            name = shape.f.get("__friendly__")
            if name is not None:
                # the affine-friendly form of a shape is that form only as long as its commands are the ones _affine_friendly produced
                if isinstance(d, PathData) and repr(d.cmds) == friendly_cmds.get(name):
                    return Tok("friendly", Tok("shape", RF.sym(name + "x")))
                return Tok("altered", Tok("friendly", Tok("shape", RF.sym(name + "x"))), repr(getattr(d, "cmds", d)))
            return Tok("shape", d.cmds[0][1][0] if isinstance(d, PathData) else "?")
        return shape

    def friendly(i, a, k):
        # a relative path with symbolic arguments, so that code which walks or filters it can be followed
        src = a[0]
        tok = ident(src)
        name = repr(tok.term[1])[:-1] if isinstance(tok, Tok) and tok.term[0] == "shape" else None
        if name is None or not isinstance(src, Rec):
            return Tok("friendly", tok)
        out = i.deepcopy(src)
        cmds = [("M", (RF.sym(name + "fx"), RF.sym(name + "fy"))), ("l", (RF.sym(name + "f1x"), RF.sym(name + "f1y"))),
                ("c", tuple(RF.sym(f"{name}f2{j}") for j in range(6))), ("l", (RF.sym(name + "f3x"), RF.sym(name + "f3y"))), ("z", ())]
        out.f["d"] = PathData(cmds)
        out.f["__friendly__"] = name
        friendly_cmds[name] = repr(out.f["d"].cmds)
        return out

    def try_affine(i, a, k):
        n = len([e for e in log if e[0] == "verify"])
        ans = i.decide(Cond("oracle-verify", (n,)))
        log.append(("verify", (a[0], ident(a[1]), ident(a[2]), a[3]), ans))
        return ans

    def almost(i, a, k):
        n = len([e for e in log if e[0] == "same-outline"])
        ans = i.decide(Cond("oracle-same-outline", (n,)))
        log.append(("same-outline", (ident(a[0]), ident(a[1]), a[2]), ans))
        return ans

    it.hooks[(R, "_try_affine")] = try_affine
    it.hooks[("svg_types", "SVGShape.almost_equals")] = almost
    it.hooks[(R, "_affine_friendly")] = friendly
    it.hooks[(R, "_first_move")] = lambda i, a, k: (RF.sym(f"{ident(a[0])!r}.x0"), RF.sym(f"{ident(a[0])!r}.y0"))
    it.hooks[(R, "_vectors")] = lambda i, a, k: Tok("vectors", ident(a[0]))
    it.hooks[(R, "_nth_vector")] = lambda i, a, k: Tok("vector", ident(a[0]), a[1])
    it.hooks[(R, "_angle")] = lambda i, a, k: RF.sym(f"angle[{a[0]!r}]")
    it.hooks[(R, "_affine_vec2vec")] = lambda i, a, k: AffTok.atom(f"vec2vec[{a[0]!r}->{a[1]!r}]")
    it.hooks[(R, "_apply_affine")] = lambda i, a, k: Tok("image", a[0], ident(a[1]))

    def first_sig(i, a, k):
        n = len([e for e in log if e[0] == "significant"])
        found = i.decide(Cond("oracle-significant-edge", (n,)))
        log.append(("significant", (a[0],), found))
        return (RF.sym(f"idx{n}"), Tok("vec", a[0], n)) if found else (-1, None)

    def first_sig_both(i, a, k):
        n = len([e for e in log if e[0] == "significant"])
        found = i.decide(Cond("oracle-significant-edge", (n,)))
        log.append(("significant", (a[0], a[1]), found))
        return (RF.sym(f"idx{n}"), Tok("vec", a[0], n), Tok("vec", a[1], n)) if found else (-1, None, None)

    it.hooks[(R, "_first_significant")] = first_sig
    it.hooks[(R, "_first_significant_for_both")] = first_sig_both


def _exceeds(c, v):
    """(index i, does |a_i - b_i| exceed the tolerance) as established by deciding the atom c with value v; None for other atoms."""
    if getattr(c, "op", None) == "not" and c.args:
        return _exceeds(c.args[0], not v)
    if getattr(c, "op", None) not in (">", ">=", "<", "<=") or len(c.args) != 2:
        return None
    lt, rt = repr(c.args[0]), repr(c.args[1])
    if "tol" in rt and "tol" not in lt:
        diff, op = lt, c.op
    elif "tol" in lt and "tol" not in rt:
        diff, op = rt, {">": "<", ">=": "<=", "<": ">", "<=": ">="}[c.op]
    else:
        return None
    idx = [i for i in range(4) if f"a{i}" in diff and f"b{i}" in diff]
    if len(idx) != 1:
        return None
    exceed_if_true = op in (">", ">=")
    return idx[0], (exceed_if_true if v else not exceed_if_true)


def _cond_truth(c, exceed):
    """Truth of a formula over the comparisons |a_i - b_i| <> tol when exceed[i] says which differences exceed the tolerance."""
    if isinstance(c, bool):
        return c
    op = getattr(c, "op", None)
    if op == "not":
        t = _cond_truth(c.args[0], exceed)
        return None if t is None else not t
    if op in ("and", "or"):
        ts = [_cond_truth(x, exceed) for x in c.args]
        if any(t is None for t in ts):
            return None
        return all(ts) if op == "and" else any(ts)
    e = _exceeds(c, True)
    if e is None:
        return None
    i, exceed_if_true = e
    return exceed[i] == exceed_if_true


def check_verification(repo: Repo, rep: Report, rule: str):
    """_try_affine answers exactly `image of s1 under the candidate` almost_equals `s2` under the caller's tolerance;
    _apply_affine sends every command of a copy of the shape through _affine_callback with the candidate;
    SVGShape.almost_equals is True iff letters, argument counts and path lengths agree and every argument differs by at most the tolerance."""
    from sa.pathsem import new_path, out_cmds
    ru, st = repo["svg_reuse"], repo["svg_types"]
    rep.saw("svg_reuse._try_affine", "svg_reuse._apply_affine", "svg_types.SVGShape.almost_equals")
    # ---- _try_affine: whatever helpers it uses, what reaches the outline comparison is the image of every command of (a copy of) s1 under the
    # candidate, compared with s2 under the caller's tolerance, and the answer of that comparison is the answer
    F = "svg_reuse._try_affine"
    fn = closure_of(repo, "svg_reuse", "_try_affine")
    seen = []
    calls = []

    def setup(it):
        install_path_hooks(it)

        def cb(i, a, k):
            calls.append((a[0], a[3], tuple(a[4])))
            return ((a[3], tuple(RF.sym(f"img[{x!r}]") for x in a[4])),)
        it.hooks[("svg_reuse", "_affine_callback")] = cb

        def almost(i, a, k):
            ans = i.decide(Cond("oracle-same-outline", (len(seen),)))
            seen.append((a[0], a[1], a[2] if len(a) > 2 else k.get("tolerance"), ans))
            return ans
        it.hooks[("svg_types", "SVGShape.almost_equals")] = almost

    cmds = [("M", (RF.sym("x0"), RF.sym("y0"))), ("l", (RF.sym("x1"), RF.sym("y1"))), ("c", tuple(RF.sym(f"c{i}") for i in range(6))), ("z", ())]
    cmds2 = [("M", (RF.sym("u0"), RF.sym("u1"))), ("l", (RF.sym("u2"), RF.sym("u3"))), ("c", tuple(RF.sym(f"w{i}") for i in range(6))), ("z", ())]
    outs = explore(repo, fn, [], fresh_args=lambda: ([AffTok.atom("A"), new_path(repo, cmds), new_path(repo, cmds2), RF.sym("tolerance"), "comment"], {}), setup=setup)
    bad = None
    answers = set()
    if len(seen) != len(outs):
        bad = f"the outline comparison is made {len(seen)} times on {len(outs)} paths; exactly one comparison decides the answer"
    for o, s in zip(outs, seen):
        if o.undecided:
            raise AnalysisError(f"{F}: abstract machine cannot interpret this code: {o.undecided}")
        if o.raised:
            bad = f"raises {o.raised}"
            continue
        recv, other, tol, ans = s
        answers.add(ans)
        got = out_cmds(recv) if hasattr(recv, "f") else None
        if got is None or [c for c, _ in got] != [c for c, _ in cmds] or any(tuple(repr(x) for x in a_) != tuple(f"img[{x!r}]" for x in b_) for (_, a_), (_, b_) in zip(got, cmds)):
            bad = f"the outline compared with s2 is {got!r}; it must be s1 with every command replaced by its image under the candidate"[:300]
        elif other is not o.args[2]:
            bad = "the image of s1 is not compared with s2"
        elif repr(tol) != "tolerance":
            bad = f"the comparison uses the tolerance {tol!r}, not the caller's"
        elif recv is o.args[1] or out_cmds(o.args[1]) != [(c, tuple(a_)) for c, a_ in cmds]:
            bad = "s1 itself is modified (the search goes on with the original s1)"
        elif o.value is not ans and o.value != ans:
            bad = f"returns {o.value!r} when the comparison says {ans}"
    if not bad and (len(calls) < len(cmds) or any(repr(c[0]) != "Aff[A]" for c in calls)):
        bad = f"_affine_callback is called {len(calls)} times with {sorted({repr(c[0]) for c in calls})}; once per command with the candidate is expected"
    if bad or answers != {True, False}:
        rep.fail(rule, F, "image of s1 under the candidate .almost_equals(s2, tolerance)", bad or "the verification does not depend on one outline comparison", ru, ru.functions.get("_try_affine"))
    else:
        rep.ok(rule, F, "answers (s1 with every command sent through _affine_callback with the candidate).almost_equals(s2, tolerance), both ways; s1 untouched", True)
    # ---- almost_equals
    F = "svg_types.SVGShape.almost_equals"
    fn = method_of(repo, "svg_types", "SVGShape", "almost_equals")
    S = RF.sym
    base = [("M", (S("a0"), S("a1"))), ("l", (S("a2"), S("a3")))]
    same = [("M", (S("b0"), S("b1"))), ("l", (S("b2"), S("b3")))]
    pairs = [("same structure", base, same, None),
             ("another letter", base, [("M", (S("b0"), S("b1"))), ("L", (S("b2"), S("b3")))], False),
             ("an extra command on the right", base, same + [("l", (S("b4"), S("b5")))], False),
             ("an extra command on the left", base + [("z", ())], same, False),
             ("an extra argument pair", base, [("M", (S("b0"), S("b1"))), ("l", (S("b2"), S("b3"), S("b4"), S("b5")))], False),
             ("an empty path", base, [], False),
             ("two empty paths", [], [], True)]
    bad = None
    n = 0
    for title, l, r, want in pairs:
        outs = explore(repo, fn, [], fresh_args=lambda l=l, r=r: ([new_path(repo, l), new_path(repo, r), S("tol")], {}), setup=lambda it: install_path_hooks(it), max_paths=256)
        for o in outs:
            n += 1
            if o.undecided:
                raise AnalysisError(f"{F}: abstract machine cannot interpret this code: {o.undecided}")
            if o.raised:
                bad = f"{title}: raises {o.raised}"
                continue
            if want is not None:
                if bool(o.value) != want:
                    bad = f"{title}: answers {o.value}; {want} expected whatever the numbers are"
                continue
            # same structure: True iff no difference exceeds the tolerance; all four differences must have been looked at for True
            if isinstance(o.value, Cond):
                # the answer is a formula over the four comparisons (any()/all() over symbolic values): it must be their conjunction
                import itertools as _it
                wrong = None
                for ex in _it.product((False, True), repeat=4):
                    t = _cond_truth(o.value, ex)
                    if t is None:
                        raise AnalysisError(f"{F}: the answer {o.value!r} is not a formula over the four tolerance comparisons")
                    if t != (not any(ex)):
                        wrong = ex
                if wrong is not None:
                    bad = f"{title}: answers {o.value!r}, which is not 'every difference within the tolerance' (differs when the differences exceeding it are {[i for i, e in enumerate(wrong) if e]})"
                continue
            # the decisions taken on this path constrain which differences exceed the tolerance: the answer must be True exactly when they
            # force every difference to be within it, False exactly when they force one to exceed it
            import itertools as _it
            consistent = [ex for ex in _it.product((False, True), repeat=4)
                          if all(_cond_truth(c, ex) in (None, v) for c, v in o.decisions)]
            if not consistent:
                continue  # contradictory path (cannot happen at run time)
            if o.value is True or o.value == True:  # noqa: E712
                if any(any(ex) for ex in consistent):
                    bad = f"{title}: answers True on a path where a difference may exceed the tolerance ({o.cond_text()[:120]})"
            else:
                if any(not any(ex) for ex in consistent):
                    bad = f"{title}: answers False on a path where no difference needs to exceed the tolerance ({o.cond_text()[:120]})"
    if bad:
        rep.fail(rule, F, "letters, argument counts, path lengths and every argument within the tolerance", bad, st, st.functions.get("SVGShape.almost_equals"))
    else:
        rep.ok(rule, F, f"{n} paths over 7 pairs of outlines: equal iff same letters, counts and lengths and every argument within the tolerance", True)

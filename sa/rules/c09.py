"""C09 - rewriting shapes and path data never changes the curve they describe.

Every rewrite (absolute, absolute_moveto, relative, explicit_lines, expand_shorthand, move, arcs_to_cubics,
subpaths, as_cmd_seq, round_floats and the seven as_path builders) is interpreted by the symbolic evaluator on
command sequences whose *letters* range over the finite alphabet (exhaustively: every letter, every ordered
pair of letters, triples in the thorough tier) and whose *numbers* are symbols.  The result is compared, as
rational functions, with a reference interpreter of SVG 1.1 path semantics written from the specification.
"""
from __future__ import annotations

from fractions import Fraction

import ast
import concurrent.futures as cf
import itertools
import os
from typing import List

from sa import spec
from sa.core import AnalysisError, Repo, Report, unparse, walk_no_nested, call_name
from sa.fold import Folder
from sa.pathsem import (PathData, install_path_hooks, new_path, out_cmds, ref_interp, run_rewrite, seg_equal, segs_equal,
                        show_cmds, sym_cmds)
from sa.poly import RF, fn_atom
from sa.selftest import Edit, Variant
from sa.sym import (ClassRef, Cond, Interp, Rec, SymStr, Undecided, closure_of, explore, method_of, to_rf, simplify_num)

from sa.texts import T as _TX

EXPLANATION = _TX["C09"]["explanation"] + " Not decided: " + _TX["C09"]["not_decided"] + "."
ASSUMPTIONS = _TX["C09"]["assumptions"]
P = "C09"

TARGET = {
    "absolute": lambda l: l.isupper(),
    "absolute_moveto": lambda l: l != "m",
    "relative": None,  # first command M, all others lower-case - handled specially
    "explicit_lines": lambda l: l.upper() not in ("H", "V"),
    "expand_shorthand": lambda l: l.upper() not in ("S", "T"),
}


def _und(o, where):
    """An outcome the evaluator could not interpret is an analysis error (exit 2), never a verdict."""
    if o.undecided:
        raise AnalysisError(f"{where}: symbolic evaluator undecided: {o.undecided}")


def _is_snap(o) -> bool:
    """The near-start snapping branch was taken: both `abs(dx) <= tiny` and `abs(dy) <= tiny` decided true (decisions are atomic)."""
    from sa.pathsem import is_snap_cond
    if any(v and is_snap_cond(c) for c, v in o.decisions):
        return True
    near = [c for c, v in o.decisions if v and "abs(" in repr(c) and "<=" in repr(c)]
    return len(near) >= 1


def _rf_from_repr(text):
    """Rebuild the rational function whose repr() labels an opaque atom (None if it is not a plain polynomial text)."""
    try:
        tree = ast.parse(text.replace("^", "**"), mode="eval")
    except SyntaxError:
        return None

    def ev(n):
        if isinstance(n, ast.Expression):
            return ev(n.body)
        if isinstance(n, ast.Constant) and isinstance(n.value, (int, float)):
            return RF.of(Fraction(str(n.value)))
        if isinstance(n, ast.Name):
            return RF.sym(n.id)
        if isinstance(n, ast.UnaryOp) and isinstance(n.op, (ast.USub, ast.UAdd)):
            v = ev(n.operand)
            return -v if isinstance(n.op, ast.USub) else v
        if isinstance(n, ast.BinOp) and isinstance(n.op, (ast.Add, ast.Sub, ast.Mult, ast.Div)):
            a, b = ev(n.left), ev(n.right)
            return {ast.Add: lambda: a + b, ast.Sub: lambda: a - b, ast.Mult: lambda: a * b, ast.Div: lambda: a / b}[type(n.op)]()
        if isinstance(n, ast.BinOp) and isinstance(n.op, ast.Pow) and isinstance(n.right, ast.Constant):
            return ev(n.left) ** int(n.right.value)
        raise ValueError(ast.dump(n))

    try:
        v = ev(tree)
    except (ValueError, TypeError, KeyError):
        return None
    return v if repr(v) == text else None


def _snap_equalities(o):
    """Substitution that takes every `abs(E) <= tiny` decided true as E = 0 (solved for one symbol of coefficient +-1)."""
    mp = {}
    for c, v in o.decisions:
        if not (v and getattr(c, "op", None) in ("<=", "<") and isinstance(c.args[0], RF)):
            continue
        ats = [a for a in c.args[0].atoms() if isinstance(a, tuple) and a[0] in ("abs", "fabs")]
        if len(ats) != 1:
            continue
        e = _rf_from_repr(ats[0][1])
        if e is None:
            return None
        e = e.subst(mp)
        if e.is_zero():
            continue
        if not e.d.is_const():
            return None
        pick = None
        for m, cf_ in sorted(e.n.t.items(), key=lambda kv: repr(kv[0]), reverse=True):
            if len(m) == 1 and m[0][1] == 1 and isinstance(m[0][0], str) and abs(cf_) == 1:
                pick = (m[0][0], cf_)
                break
        if pick is None:
            return None
        sym, cf_ = pick
        rest = e - RF.sym(sym) * RF.of(cf_)
        val = -rest / RF.of(cf_)
        mp = {k: RF.of(x).subst({sym: val}) for k, x in mp.items()}
        mp[sym] = val
    return mp


def _subst_segs(segs, mp):
    def sv(x):
        if isinstance(x, tuple):
            return tuple(sv(y) for y in x)
        if isinstance(x, (str, bool)) or x is None:
            return x
        try:
            return to_rf(x).subst(mp)
        except Exception:
            return x
    return [tuple([s[0]] + [sv(x) for x in s[1:]]) for s in segs]


def _check_seq(repo, method, letters):
    """-> list of (problem text) for one rewrite on one letter sequence; also returns (#paths, #snap paths)."""
    cmds = sym_cmds(letters)
    probs = []
    try:
        outs = run_rewrite(repo, method, cmds, no_snap=len(letters) > 2)
    except AnalysisError as e:
        return [f"path explosion: {e}"], 0, 0
    want = ref_interp(cmds)
    snaps = 0
    for o in outs:
        if o.undecided:
            probs.append(f"UNDECIDED {o.undecided}")
            continue
        if o.raised:
            probs.append(f"raises {o.raised} on a valid sequence")
            continue
        oc = out_cmds(o.value)
        ls = [c for c, _ in oc]
        # target form
        if method == "relative":
            bad = [l for i, l in enumerate(ls) if (i == 0 and l != "M") or (i > 0 and not l.islower())]
            # a later M/Z made lower-case is still lower-case; only first command must be M
        else:
            bad = [l for l in ls if not TARGET[method](l)]
        if bad:
            probs.append(f"target form violated: emits {bad} in {show_cmds(oc)}")
            continue
        got = ref_interp(oc)
        if _is_snap(o):
            snaps += 1
            if [s[0] for s in got] != [s[0] for s in want]:
                probs.append(f"(snap path) segment kinds differ: {[s[0] for s in got]} vs {[s[0] for s in want]}")
                continue
            # the end point was within 1e-9 of the subpath start: the curve must be the same up to that distance, i.e. equal
            # once the tiny differences are taken as zero
            mp = _snap_equalities(o)
            if mp is not None:
                d = segs_equal(_subst_segs(want, mp), _subst_segs(got, mp))
                if d is not None:
                    probs.append(f"(near-start snapping path) curve differs at segment {d} by more than the snapping distance: specification {_subst_segs(want, mp)[d] if d < len(want) else None} "
                                 f"but rewrite gives {_subst_segs(got, mp)[d] if d < len(got) else None}  [{show_cmds(oc)}]")
            continue
        d = segs_equal(want, got)
        if d is not None:
            w = want[d] if d < len(want) else None
            g = got[d] if d < len(got) else None
            probs.append(f"curve differs at segment {d}: specification {w} but rewrite gives {g}  [{show_cmds(oc)}]")
    return probs, len(outs), snaps


def _worker(args):
    root, overlay, method, seqs = args
    repo = Repo(root, overlay)
    res = []
    for letters in seqs:
        probs, n, s = _check_seq(repo, method, letters)
        res.append((method, letters, probs, n, s))
    return res


def _sequences(tier):
    L = spec.LETTERS
    seqs = [("M", c) for c in L] + [("m", c) for c in L]
    seqs += [("M", p, c) for p in L for c in L]
    # z followed by drawing commands, repeated moveto with relative follow-ups
    seqs += [("M", "l", "z", c) for c in L] + [("M", "M", c) for c in "lhvcsqta"] + [("m", "m", c, "z") for c in "lhvcsqta"]
    return seqs


def _triples():
    L = spec.LETTERS
    return [("M", a, b, c) for a in L for b in L for c in L]


def run(repo: Repo, rep: Report):
    folder = Folder(repo)
    st = repo["svg_types"]
    meta = repo["svg_meta"]
    for rid, txt in [
        ("R-TABLE.cmd-coords", "_CMD_COORDS x/y index sets equal the specification (end point last, arc radii/flags are not coordinates)"),
        ("R-CASE.rewrite", "rewrite(seq) describes the same curve as seq (reference SVG semantics) and reaches its target form"),
        ("R-CASE.move", "move(dx,dy) translates every absolute point by (dx,dy) and nothing else"),
        ("R-CASE.arcs", "arcs_to_cubics: non-arc commands untouched; arc replaced by C/L from arc_to_cubic fed with absolute start/end"),
        ("R-CASE.subpaths", "subpaths() partitions the (absolute-moveto) command list at every M and after every Z"),
        ("R-CASE.cmd-seq", "as_cmd_seq emits only absolute M L C Q Z (what skia_path accepts)"),
        ("R-CASE.builder", "as_path of the seven basic shapes equals the SVG 1.1 chapter 9 outline"),
        ("R-CASE.round", "round_floats passes every argument through round(_, ndigits)"),
    ]:
        rep.rule(rid, txt)

    # ---------------- tables
    coords = folder.table("svg_meta", "_CMD_COORDS")
    rep.tables.add("svg_meta._CMD_COORDS")
    bad = {k: coords.get(k) for k in spec.CMD_ARITY if tuple(map(tuple, coords.get(k, ((), ())))) != (spec.CMD_X[k], spec.CMD_Y[k])}
    extra = set(coords) - set(spec.CMD_ARITY)
    if bad or extra:
        k = sorted(bad or extra)[0]
        rep.fail("R-TABLE.cmd-coords", "svg_meta._CMD_COORDS", f"_CMD_COORDS[{k!r}] = {coords.get(k)}",
                 f"coordinate index table differs from the specification for {sorted(bad)} (spec for {k!r}: x={spec.CMD_X.get(k)}, y={spec.CMD_Y.get(k)})", meta)
    else:
        rep.ok("R-TABLE.cmd-coords", "svg_meta._CMD_COORDS", "20 letters: x/y index sets, disjoint, inside arity, end point last")

    # ---------------- rewrites over letter sequences (parallel)
    for m in TARGET:
        st.func(f"SVGPath.{m}")
        rep.saw(f"svg_types.SVGPath.{m}")
    rep.saw("svg_types.SVGPath.walk", "svg_types.SVGPath._rewrite_path", "svg_types._next_pos", "svg_types._move_endpoint",
            "svg_types._rewrite_coords", "svg_types._explicit_lines_callback", "svg_types._relative_to_absolute",
            "svg_types._absolute_to_relative", "svg_types._relative_to_absolute_moveto")
    seqs = _sequences(rep.tier)
    tasks = []
    chunk = 24
    for m in TARGET:
        for i in range(0, len(seqs), chunk):
            tasks.append((repo.root, repo.overlay, m, seqs[i:i + chunk]))
    if rep.tier == "thorough":
        tri = _triples()
        for m in ("explicit_lines", "expand_shorthand", "absolute"):
            for i in range(0, len(tri), 200):
                tasks.append((repo.root, repo.overlay, m, tri[i:i + 200]))
    results = []
    jobs = int(os.environ.get("VERIF_JOBS", "16"))
    if rep.tier == "selftest" or jobs <= 1:
        # inside the self-test pool: run a reduced but still exhaustive-in-pairs set sequentially
        small = [t for t in tasks]
        for t in small:
            results += _worker(t)
    else:
        with cf.ProcessPoolExecutor(max_workers=jobs) as ex:
            for r in ex.map(_worker, tasks):
                results += r
    total_paths = total_snaps = 0
    by_method = {}
    for method, letters, probs, n, s in results:
        total_paths += n
        total_snaps += s
        by_method.setdefault(method, [0, []])
        by_method[method][0] += 1
        if probs:
            by_method[method][1].append((letters, probs))
    for method, (n, bad) in by_method.items():
        F = f"svg_types.SVGPath.{method}"
        if bad:
            und = [b for b in bad if any(p.startswith("UNDECIDED") for p in b[1])]
            if und and len(und) == len(bad):
                raise AnalysisError(f"{F}: evaluator undecided on {len(und)} sequences, e.g. {' '.join(und[0][0])}: {und[0][1][0]}")
            real = [b for b in bad if not all(p.startswith("UNDECIDED") for p in b[1])]
            letters, probs = sorted(real, key=lambda b: (len(b[0]), b[0]))[0]
            msg = [p for p in probs if not p.startswith("UNDECIDED")][0]
            rep.fail("R-CASE.rewrite", F, f"{method}({' '.join(letters)})",
                     f"{len(real)} of {n} letter sequences are rewritten wrongly; shortest: '{' '.join(letters)}': {msg}",
                     st, st.func(f"SVGPath.{method}"))
        else:
            rep.ok("R-CASE.rewrite", F, f"{n} letter sequences (all letters, all ordered pairs, z/m contexts"
                   + (", all triples" if rep.tier == "thorough" and method in ("explicit_lines", "expand_shorthand", "absolute") else "")
                   + ") equal the reference semantics on every non-snapping path", True)
    rep.notes.append(f"rewrite exploration: {len(results)} (rewrite, sequence) cases, {total_paths} paths, {total_snaps} snapping paths compared with the specification modulo the snapped (<= 1e-9) differences")
    rep.call_sites += len(results)

    _check_move(repo, rep)
    _check_arcs(repo, rep)
    _check_subpaths(repo, rep)
    _check_cmd_seq(repo, rep)
    _check_builders(repo, rep)
    _check_round(repo, rep)
    # the arc -> cubic replacement itself (structure of arc_to_cubic.py; rules of C12)
    from sa.rules import c12
    c12.run(repo, rep, with_callback=False)


# ------------------------------------------------------------------------------------------
def _translate(segs, dx, dy):
    out = []
    for s in segs:
        t = [s[0]]
        for x in s[1:]:
            t.append((x[0] + dx, x[1] + dy) if isinstance(x, tuple) else x)
        out.append(tuple(t))
    return out


def _check_move(repo, rep):
    st = repo["svg_types"]
    F = "svg_types.SVGPath.move"
    rep.saw(F)
    dx, dy = RF.sym("dx"), RF.sym("dy")
    bad = []
    n = 0
    for letters in [("M", c) for c in spec.LETTERS] + [("M", p, c) for p in "lLzZaA" for c in spec.LETTERS]:
        cmds = sym_cmds(letters)
        for o in run_rewrite(repo, "move", cmds, extra_args=[dx, dy]):
            n += 1
            _und(o, f"{F} on {' '.join(letters)}")
            if o.raised:
                bad.append((letters, f"raises {o.raised}"))
                continue
            oc = out_cmds(o.value)
            if [c for c, _ in oc] != list(letters):
                bad.append((letters, f"letters changed to {[c for c, _ in oc]}"))
                continue
            d = segs_equal(_translate(ref_interp(cmds), dx, dy), ref_interp(oc))
            if d is not None:
                bad.append((letters, f"segment {d} is not the translate of the original: {ref_interp(oc)[d]}"))
    if bad:
        l, msg = bad[0]
        rep.fail("R-CASE.move", F, f"move({' '.join(l)})", f"{len(bad)} of {n} cases wrong; first: {msg}", st, st.func("SVGPath.move"))
    else:
        rep.ok("R-CASE.move", F, f"{n} cases: every absolute point shifted by (dx,dy), relative arguments untouched", True)


def _check_arcs(repo, rep):
    st = repo["svg_types"]
    F = "svg_types.SVGPath.arcs_to_cubics"
    rep.saw(F)
    seen_calls = []

    def _pt(x, y):
        return Rec(ClassRef("geometric_types", "Point"), {"x": x, "y": y})

    def _xy(p):
        return (p.f["x"], p.f["y"]) if isinstance(p, Rec) else (p[0], p[1])

    def _case_conds(start, rx, ry, end):
        (sx, sy), (ex, ey) = _xy(start), _xy(end)
        # asked about the displacement, so that the question reads the same however the current point was accumulated
        return [Cond("==", (simplify_num(to_rf(ex) - to_rf(sx)), 0)), Cond("==", (simplify_num(to_rf(ey) - to_rf(sy)), 0)), Cond("==", (to_rf(rx), 0)), Cond("==", (to_rf(ry), 0))]

    def stub(it, a, k):
        # arc_to_cubic's contract (decided by C12's dispatch rule): coincident end points -> nothing; else a zero radius -> one
        # straight segment; else curves.  The stub asks the same questions through the evaluator, so that it never contradicts
        # a test the code under analysis has already made on this path.  The curves echo every argument into the control
        # points, so that the rewritten command list shows what arc_to_cubic was called with.
        seen_calls.append(a)
        same_x, same_y, zx, zy = _case_conds(a[0], a[1], a[2], a[6])
        if it.decide(same_x) and it.decide(same_y):
            return []
        if it.decide(zx) or it.decide(zy):
            return [(None, None, a[6])]
        start = a[0] if isinstance(a[0], Rec) else _pt(a[0][0], a[0][1])
        return [(start, _pt(a[1], a[2]), _pt(RF.sym("midx"), RF.sym("midy"))), (_pt(a[3], a[4]), _pt(a[5], 0), a[6])]

    def _path_eqs(o):
        """Substitution implied by the equalities this path decided true (x == c, or x == expression in other symbols)."""
        from sa.sym import normalise_decisions
        eqs = dict(o.equalities())
        for c, v in normalise_decisions(o.decisions):
            if not (v and getattr(c, "op", "") == "==" and len(c.args) == 2):
                continue
            try:
                d = to_rf(c.args[0]) - to_rf(c.args[1])
                if eqs:
                    d = d.subst(eqs)
                if not d.d.is_const():
                    continue
                terms = d.n.canon().t
            except Exception:
                continue
            lin = [m for m in terms if len(m) == 1 and m[0][1] == 1 and isinstance(m[0][0], str)
                   and not any(m is not m2 and any(f[0] == m[0][0] for f in m2) for m2 in terms)]
            if not lin:
                continue
            m = max(lin, key=lambda mm: mm[0][0])
            x = RF.sym(m[0][0])
            k = terms[m]
            eqs[m[0][0]] = simplify_num(x - d * RF.of(d.d.const_value()) / RF.of(k)) if hasattr(d.d, "const_value") else None
            if eqs[m[0][0]] is None:
                del eqs[m[0][0]]
        return eqs

    def _decided(o, cond):
        """What outcome o decided about cond (None: never asked)."""
        from sa.sym import normalise_decisions
        d = Interp(repo)._decide_cond(cond)
        if d is not None:
            return d
        eqs = _path_eqs(o)
        diff = lambda x, y: (to_rf(x) - to_rf(y)).subst(eqs) if eqs else (to_rf(x) - to_rf(y))
        want = diff(*cond.args)
        for c, v in normalise_decisions(o.decisions):
            if getattr(c, "op", "") == "==" and len(c.args) == 2:
                try:
                    got = diff(*c.args)
                except Exception:
                    continue
                raw = to_rf(c.args[0]) - to_rf(c.args[1])
                raw_want = to_rf(cond.args[0]) - to_rf(cond.args[1])
                if got.equals(want) or got.equals(-want) or raw.equals(raw_want) or raw.equals(-raw_want):
                    return v
        return None

    def _kind(o, start, args, end):
        same_x, same_y, zx, zy = _case_conds(start, args[0], args[1], end)
        if _decided(o, same_x) and _decided(o, same_y):
            return "none"
        if _decided(o, zx) or _decided(o, zy):
            return "line"
        return "cubic"

    bad = []
    n = 0
    kinds_seen = set()
    kind = "consistent"
    if True:
        for letters in [("M", "l", arc, c) for arc in "aA" for c in "lLaAzcq"] + [("M", arc) for arc in "aA"] + [("M", c) for c in spec.LETTERS if c not in "aA"]:
            cmds = sym_cmds(letters)
            del seen_calls[:]
            outs = run_rewrite(repo, "arcs_to_cubics", cmds, arc_stub=stub)
            for o in outs:
                n += 1
                _und(o, f"{F} on {' '.join(letters)}")
                if o.raised:
                    bad.append((letters, kind, f"raises {o.raised}"))
                    continue
                oc = out_cmds(o.value)
                if any(c in "aA" for c, _ in oc):
                    bad.append((letters, kind, f"arc survives: {show_cmds(oc)}"))
                    continue
                # expected: every non-arc command unchanged, every arc replaced by what arc_to_cubic answers for it
                want_segs = ref_interp(cmds)
                exp = []
                for (c, args), seg in zip(cmds, want_segs):
                    if c in "aA":
                        p0, p1 = seg[1], seg[-1]
                        kd = _kind(o, p0, args, p1)
                        kinds_seen.add(kd)
                        if kd == "cubic":
                            exp.append(("C", (p0[0], p0[1], seg[2], seg[3], RF.sym("midx"), RF.sym("midy"))))
                            exp.append(("C", (seg[4], seg[5], seg[6], 0, p1[0], p1[1])))
                        elif kd == "line":
                            exp.append(("L", (p1[0], p1[1])))
                    else:
                        exp.append((c, args))
                eqs = _path_eqs(o)  # what this path knows (a displacement that is zero): compared modulo that
                same = lambda x, y: to_rf(x).equals(y) or (eqs and to_rf(x).subst(eqs).equals(to_rf(y).subst(eqs)))
                ok = len(exp) == len(oc) and all(a[0] == b[0] and len(a[1]) == len(b[1]) and all(same(x, y) for x, y in zip(a[1], b[1])) for a, b in zip(exp, oc))
                if not ok:
                    bad.append((letters, kind, f"expected {show_cmds(exp)} got {show_cmds(oc)}"))
    if kinds_seen != {"none", "line", "cubic"}:
        raise AnalysisError(f"{F}: the arc cases explored are {sorted(kinds_seen)}; coincident end points, a zero radius and a proper arc must all occur")
    if bad:
        l, kind, msg = bad[0]
        rep.fail("R-CASE.arcs", F, f"arcs_to_cubics({' '.join(l)}) [{kind} stub]", f"{len(bad)} of {n} cases wrong; first: {msg}", st, st.func("SVGPath.arcs_to_cubics"))
    else:
        rep.ok("R-CASE.arcs", F, f"{n} cases (arc_to_cubic answering per its contract: nothing for coincident end points, a straight segment for a zero radius, curves otherwise): arc -> nothing/L/C... with absolute start and end, other commands untouched", True)


def _check_subpaths(repo, rep):
    st = repo["svg_types"]
    F = "svg_types.SVGPath.subpaths"
    rep.saw(F)
    bad = []
    n = 0
    seqs = [("M", "l", "z"), ("M", "l", "z", "l"), ("M", "l", "m", "l"), ("M", "l", "M", "l", "Z", "M", "l"), ("m", "l", "z", "m", "l"), ("M", "l", "Z", "z", "l")]
    seqs += [("M", "l", c, "l") for c in "mMzZ"] + [("M", c, "z", c) for c in "lhvcsqta"]
    for letters in seqs:
        cmds = sym_cmds(letters)
        for o in run_rewrite(repo, "subpaths", cmds, no_snap=True):
            n += 1
            if _is_snap(o):
                continue
            _und(o, f"{F} on {' '.join(letters)}")
            if o.raised:
                bad.append((letters, f"raises {o.raised}"))
                continue
            pieces = []
            for d in o.value:
                if not isinstance(d, PathData):
                    bad.append((letters, f"piece {d!r}"))
                    continue
                pieces.append(d.cmds)
            flat = [c for p in pieces for c in p]
            d = segs_equal(ref_interp(cmds), ref_interp(flat))
            if d is not None:
                bad.append((letters, f"concatenated subpaths differ from the path at segment {d}"))
            for p in pieces:
                ls = [c for c, _ in p]
                if any(l.upper() == "M" for l in ls[1:]) or any(l.upper() == "Z" for l in ls[:-1]) or not ls:
                    bad.append((letters, f"piece {ls} is not a single subpath"))
                if ls and ls[0] == "m":
                    bad.append((letters, f"piece starts with a relative moveto"))
    if bad:
        l, msg = bad[0]
        rep.fail("R-CASE.subpaths", F, f"subpaths({' '.join(l)})", f"{len(bad)} problems in {n} cases; first: {msg}", st, st.func("SVGPath.subpaths"))
    else:
        rep.ok("R-CASE.subpaths", F, f"{n} cases: pieces concatenate to the path, split at every M and after every Z, absolute movetos", True)


def _check_cmd_seq(repo, rep):
    st = repo["svg_types"]
    F = "svg_types.SVGShape.as_cmd_seq"
    rep.saw(F)
    fn = method_of(repo, "svg_types", "SVGShape", "as_cmd_seq")

    def stub(it, a, k):
        p = lambda n: Rec(ClassRef("geometric_types", "Point"), {"x": RF.sym(n + "x"), "y": RF.sym(n + "y")})
        return [(p("k1"), p("k2"), a[6])]

    bad = []
    n = 0
    from sa.pathsem import install_path_hooks
    for letters in [("M", c) for c in spec.LETTERS] + [("M", p, c) for p in "qQcCsStThHaA" for c in "sStThHvVaAzZ"]:
        cmds = sym_cmds(letters)
        def setup(it):
            from sa.pathsem import is_snap_cond
            install_path_hooks(it, stub)
            it.auto_decide = lambda c: False if is_snap_cond(c) else None

        outs = explore(repo, fn, [], fresh_args=lambda: ([new_path(repo, cmds)], {}), setup=setup, max_paths=512)
        for o in outs:
            n += 1
            _und(o, f"{F} on {' '.join(letters)}")
            if o.raised:
                bad.append((letters, f"raises {o.raised}"))
                continue
            oc = out_cmds(o.value)
            ls = [c for c, _ in oc]
            off = [l for l in ls if l not in "MLCQZ"]
            if off:
                bad.append((letters, f"emits {off}"))
                continue
            # the sequence handed to Skia describes the same curve (an arc stands for the cubic the arc conversion returns for it)
            k1, k2 = (RF.sym("k1x"), RF.sym("k1y")), (RF.sym("k2x"), RF.sym("k2y"))
            want = [("C", sg[1], k1, k2, sg[-1]) if sg[0] == "A" else sg for sg in ref_interp(cmds)]
            d = segs_equal(want, ref_interp(oc))
            if d is not None:
                got = ref_interp(oc)
                bad.append((letters, f"the curve differs at segment {d}: the source draws {want[d] if d < len(want) else None}, Skia is given {got[d] if d < len(got) else None}"))
    if bad:
        l, msg = bad[0]
        rep.fail("R-CASE.cmd-seq", F, f"as_cmd_seq({' '.join(l)})", f"{len(bad)} of {n} cases hand Skia something else than the source curve in absolute M L C Q Z; first: {msg}"[:700], st, st.func("SVGShape.as_cmd_seq"))
    else:
        rep.ok("R-CASE.cmd-seq", F, f"{n} cases: only absolute M L C Q Z reach Skia and they describe the source curve (shorthands resolved against the source's previous segment, arcs replaced by their cubics)", True)


def _mk_shape(repo, cls, fields):
    it = Interp(repo)
    c = ClassRef("svg_types", cls)
    f = {}
    for n, (m, dn) in it.class_fields(c):
        f[n] = SymStr(f"<{n}>") if n not in fields else fields[n]
    return Rec(c, f, mutable=True)


def _check_builders(repo, rep, rule="R-CASE.builder"):
    st = repo["svg_types"]
    S = RF.sym
    specs = {
        "SVGLine": (dict(x1=S("x1"), y1=S("y1"), x2=S("x2"), y2=S("y2")),
                    lambda v, arcs: [("M", (v["x1"], v["y1"])), ("L", (v["x2"], v["y2"]))]),
        "SVGEllipse": (dict(rx=S("rx"), ry=S("ry"), cx=S("cx"), cy=S("cy")),
                       lambda v, arcs: [("M", (v["cx"] + v["rx"], v["cy"])), ("A", (v["rx"], v["ry"], 0, 1, 1, v["cx"] - v["rx"], v["cy"])),
                                        ("A", (v["rx"], v["ry"], 0, 1, 1, v["cx"] + v["rx"], v["cy"])), ("Z", ())]),
        "SVGCircle": (dict(r=S("r"), cx=S("cx"), cy=S("cy")),
                      lambda v, arcs: [("M", (v["cx"] + v["r"], v["cy"])), ("A", (v["r"], v["r"], 0, 1, 1, v["cx"] - v["r"], v["cy"])),
                                       ("A", (v["r"], v["r"], 0, 1, 1, v["cx"] + v["r"], v["cy"])), ("Z", ())]),
        "SVGRect": (dict(x=S("x"), y=S("y"), width=S("w"), height=S("h"), rx=S("rx"), ry=S("ry")),
                    lambda v, arcs: [("M", (v["x"] + v["rx"], v["y"])), ("H", (v["x"] + v["width"] - v["rx"],))]
                    + ([("A", (v["rx"], v["ry"], 0, 0, 1, v["x"] + v["width"], v["y"] + v["ry"]))] if arcs else [])
                    + [("V", (v["y"] + v["height"] - v["ry"],))]
                    + ([("A", (v["rx"], v["ry"], 0, 0, 1, v["x"] + v["width"] - v["rx"], v["y"] + v["height"]))] if arcs else [])
                    + [("H", (v["x"] + v["rx"],))]
                    + ([("A", (v["rx"], v["ry"], 0, 0, 1, v["x"], v["y"] + v["height"] - v["ry"]))] if arcs else [])
                    + [("V", (v["y"] + v["ry"],))]
                    + ([("A", (v["rx"], v["ry"], 0, 0, 1, v["x"] + v["rx"], v["y"]))] if arcs else [])
                    + [("Z", ())]),
    }
    for cls, (fields, want_fn) in specs.items():
        F = f"svg_types.{cls}.as_path"
        rep.saw(F)
        fn = method_of(repo, "svg_types", cls, "as_path")
        outs = explore(repo, fn, [], fresh_args=lambda: ([_mk_shape(repo, cls, fields)], {}), setup=lambda it: install_path_hooks(it), max_paths=64)
        bad = None
        for o in outs:
            _und(o, F)
            if o.raised:
                bad = f"raises {o.raised}"
                break
            oc = out_cmds(o.value)
            arcs = any(c == "A" for c, _ in oc)
            if cls == "SVGRect":
                # arcs exactly on the paths where rx > 0 was decided true
                took = [v for c, v in o.decisions if "rx" in repr(c)]
                if took and (all(took) != arcs):
                    bad = f"corner arcs emitted inconsistently with the rx > 0 test on path {o.cond_text()}"
                    break
            want = want_fn(fields, arcs)
            ok = len(want) == len(oc) and all(a[0] == b[0] and len(a[1]) == len(b[1]) and all(to_rf(x).equals(y) for x, y in zip(a[1], b[1])) for a, b in zip(want, oc))
            if not ok:
                bad = f"outline is {show_cmds(oc)}; SVG 1.1 gives {show_cmds(want)}"
                break
            # common fields are carried over
            lost = [n for n in ("fill", "stroke", "opacity", "id", "transform", "fill_rule", "clip_path", "style", "display") if repr(o.value.f.get(n)) != f"<{n}>"]
            if lost:
                bad = f"common fields not copied to the path: {lost}"
                break
        if bad:
            rep.fail(rule, F, f"{cls}.as_path()", bad, st, st.func(f"{cls}.as_path"))
        else:
            rep.ok(rule, F, f"{len(outs)} path(s): outline equals the specification, all 18 common fields copied", True)
    # rect corner radii (SVG 1.1 9.2): an unspecified radius takes the other one, then rx <= width/2, ry <= height/2.  Interpreted on the constructor
    # with concrete numbers (exact constant propagation through whatever code establishes the radii) and read off the outline.
    F = "svg_types.SVGRect"
    rep.saw("svg_types.SVGRect.__post_init__")
    cases = [((0, 3), (3, 2)), ((3, 0), (3, 2)), ((0, 0), (0, 0)), ((8, 1), (5, 1)), ((1, 8), (1, 2)), ((0, 8), (5, 2)), ((7, 0), (5, 2)), ((1, 1), (1, 1)), ((2, 0), (2, 2)), ((0, 1), (1, 1))]
    bad = None
    for (rx, ry), (wx, wy) in cases:
        def mk(rx=rx, ry=ry):
            try:
                return ([Interp(repo).call(ClassRef("svg_types", "SVGRect"), [], {"x": 1, "y": 2, "width": 10, "height": 4, "rx": rx, "ry": ry})], {})
            except Undecided as e:
                raise AnalysisError(f"{F}: the evaluator cannot interpret the construction of a rect: {e}")
        outs = explore(repo, method_of(repo, "svg_types", "SVGRect", "as_path"), [], fresh_args=mk, setup=lambda it: install_path_hooks(it), max_paths=16)
        for o in outs:
            _und(o, F)
            if o.raised:
                bad = f"SVGRect(width=10, height=4, rx={rx}, ry={ry}) raises {o.raised}"
                continue
            oc = out_cmds(o.value)
            arcs = [a for c, a in oc if c in "Aa"]
            got = (arcs[0][0], arcs[0][1]) if arcs else (0, 0)
            if not (to_rf(got[0]).equals(to_rf(wx)) and to_rf(got[1]).equals(to_rf(wy))) or (arcs and len(arcs) != 4):
                bad = f"SVGRect(width=10, height=4, rx={rx}, ry={ry}) is outlined with corner radii {got[0]},{got[1]}; SVG 1.1 gives {wx},{wy}"
    if bad:
        rep.fail(rule, F, "rect corner radii", bad, st, st.func("SVGRect.as_path"))
    else:
        rep.ok(rule, F, f"{len(cases)} rx/ry combinations: missing radius taken from the other, each clamped to half its own side", True)
    # polygon / polyline: the path data built from a points string reads (by the grammar) as M p0 L p1 .. [Z]
    from sa.rules.semparse import reference
    for cls, close in (("SVGPolygon", True), ("SVGPolyline", False)):
        F = f"svg_types.{cls}.as_path"
        fn = st.func(f"{cls}.as_path")
        rep.saw(F)
        bad = None
        for pts, want in (("1,2 3,4 5,6", [("M", (1, 2)), ("L", (3, 4)), ("L", (5, 6))]), ("0 0 10 0 10 10 0 10", [("M", (0, 0)), ("L", (10, 0)), ("L", (10, 10)), ("L", (0, 10))]), ("7,8", [("M", (7, 8))])):
            outs = explore(repo, method_of(repo, "svg_types", cls, "as_path"), [], fresh_args=lambda pts=pts: ([_mk_shape(repo, cls, {"points": pts})], {}), max_paths=8)
            for o in outs:
                _und(o, F)
                if o.raised:
                    bad = f"points={pts!r} raises {o.raised}"
                    continue
                d = o.value.f.get("d")
                if not isinstance(d, str):
                    raise AnalysisError(f"{F}: path data is not a constant string on a constant points list: {d!r}")
                got = reference(d, True)
                exp = want + ([("Z", ())] if close else [])
                norm = lambda cs: [(c.upper() if c in "zZ" else c, tuple(Fraction(str(a)) for a in args)) for c, args in cs]
                if got is None or norm(got) != norm(exp):
                    bad = f"points={pts!r} becomes d={d!r}; expected M p0 L p1 ..{' Z' if close else ''}"
                lost = [n for n in ("fill", "stroke", "opacity", "id", "transform") if repr(o.value.f.get(n)) != f"<{n}>"]
                if lost:
                    bad = f"common fields not copied to the path: {lost}"
        if bad:
            rep.fail(rule, F, f"{cls}.as_path()", bad, st, fn)
        else:
            rep.ok(rule, F, f"3 points lists: M p0 L p1 ..{' Z' if close else ' (open)'}; common fields copied", True)


def _check_round(repo, rep):
    """round_floats interpreted on a path with symbolic numbers: every argument of every command comes out as
    round(arg, ndigits), letters and order unchanged, on every path through the code; numeric fields of the shape too."""
    from sa.pathsem import new_path, run_rewrite, out_cmds
    from sa.sym import fn_atom, simplify_num
    st = repo["svg_types"]
    F = "svg_types.SVGPath.round_floats"
    rep.saw(F, "svg_types.SVGShape.round_floats")
    nd = RF.sym("nd")
    cmds = [("M", (RF.sym("x0"), RF.sym("y0"))), ("l", (RF.sym("x1"), RF.sym("y1"))), ("C", tuple(RF.sym(f"c{i}") for i in range(6))),
            ("a", (RF.sym("rx"), RF.sym("ry"), RF.sym("rot"), 1, 0, RF.sym("ex"), RF.sym("ey"))), ("H", (RF.sym("h"),)), ("z", ())]
    probs = []
    n = 0
    for inplace in (False, True):
        fn = method_of(repo, "svg_types", "SVGPath", "round_floats")

        def setup(it):
            from sa.pathsem import install_path_hooks
            install_path_hooks(it)

        def fresh():
            return ([new_path(repo, cmds, opacity=RF.sym("op"), stroke_width=RF.sym("sw")), nd], {"inplace": inplace})

        for o in explore(repo, fn, [], fresh_args=fresh, setup=setup, max_paths=64):
            n += 1
            if o.undecided:
                raise AnalysisError(f"{F}: evaluator undecided: {o.undecided}")
            if o.raised:
                probs.append(f"raises {o.raised}")
                continue
            got = out_cmds(o.value)
            if [c for c, _ in got] != [c for c, _ in cmds]:
                probs.append(f"commands {[c for c, _ in got]} instead of {[c for c, _ in cmds]}")
                continue
            for (c, a), (_, a0) in zip(got, cmds):
                for v, v0 in zip(a, a0):
                    want = simplify_num(fn_atom("round", v0, nd)) if isinstance(v0, RF) else v0
                    if repr(simplify_num(v) if isinstance(v, RF) else v) not in (repr(want), repr(simplify_num(fn_atom("round", v0, nd)))):
                        probs.append(f"argument {v0} of {c} comes out as {v}; round({v0}, ndigits) expected on every path ({o.cond_text()[:80]})")
            for fld, sym in (("opacity", "op"), ("stroke_width", "sw")):
                isf = None
                for c, v in o.decisions:
                    r = repr(c)
                    if "isfloat" in r and sym in r:
                        neg = 0
                        while r.startswith("not ") or r.startswith("not("):
                            r = r[4:] if r.startswith("not ") else r[4:-1]
                            r = r[1:-1] if r.startswith("(") and r.endswith(")") else r
                            neg += 1
                        isf = v if neg % 2 == 0 else (not v)
                if isf is False:
                    continue  # the field holds an int on this path: nothing to round
                if repr(o.value.f.get(fld)) != repr(simplify_num(fn_atom("round", RF.sym(sym), nd))):
                    probs.append(f"field {fld} comes out as {o.value.f.get(fld)}; float fields are rounded to ndigits as well")
            if (o.value is o.args[0]) != inplace:
                probs.append(f"inplace={inplace}: {'a copy' if inplace else 'the receiver'} is returned")
    if probs:
        rep.fail("R-CASE.round", F, "round_floats(ndigits) on symbolic numbers", f"{len(dict.fromkeys(probs))} deviations; first: {probs[0]}", st, st.func("SVGPath.round_floats"))
    else:
        rep.ok("R-CASE.round", F, f"{n} paths: every argument of M l C a H z and every float field equals round(value, ndigits); letters and order kept", True)


_T = "svg_types"
VARIANTS = [
    Variant("reverted-fix F2: reflect after any curve", [Edit(_T, "SVGPath.expand_shorthand", "if prev_cmd == short_to_long[cmd]:", "if prev_cmd in short_to_long.values():")],
            [("R-CASE.rewrite", "expand_shorthand")]),
    Variant("rect: radii clamped before the missing one is defaulted", [Edit(_T, "SVGRect.__post_init__", "        if not self.rx:\n            self.rx = self.ry\n        if not self.ry:\n            self.ry = self.rx\n        self.rx = min(self.rx, self.width / 2)\n        self.ry = min(self.ry, self.height / 2)", "        self.rx = min(self.rx, self.width / 2)\n        self.ry = min(self.ry, self.height / 2)\n        self.rx = self.rx or self.ry\n        self.ry = self.ry or self.rx")],
            [("R-CASE.builder", "SVGRect")]),
    Variant("polygon left open", [Edit(_T, "SVGPolygon.as_path", '+ " Z"', '+ ""')], [("R-CASE.builder", "SVGPolygon")]),
    Variant("silent: rect radii clamp with arguments swapped", [Edit(_T, "SVGRect.__post_init__", "min(self.rx, self.width / 2)", "min(self.width / 2, self.rx)")], silent=True),
    Variant("snapped end point not made relative", [Edit(_T, "_move_endpoint", "if cmd.islower():", "if False:")], [("R-CASE.rewrite", "relative")]),
    Variant("arcs converted before shorthands are expanded", [Edit(_T, "SVGShape.as_cmd_seq", "            .explicit_lines()  # hHvV => lL\n            .expand_shorthand(inplace=True)\n            .absolute(inplace=True)\n            .arcs_to_cubics(inplace=True)",
                                                                       "            .arcs_to_cubics()\n            .explicit_lines(inplace=True)\n            .expand_shorthand(inplace=True)\n            .absolute(inplace=True)")],
            [("R-CASE.cmd-seq", "as_cmd_seq")]),
    Variant("V/H terms swapped", [Edit(_T, "_explicit_lines_callback", "args = (curr_pos.x, args[0])", "args = (args[0], curr_pos.x)")],
            [("R-CASE", "explicit_lines"), ("R-CASE", "as_cmd_seq")]),
    Variant("curr.x added at a y index for q", [Edit("svg_meta", None, '"q": ((0, 2), (1, 3)),', '"q": ((0, 3), (1, 2)),')],
            [("R-TABLE.cmd-coords", "_CMD_COORDS")]),
    Variant("_next_pos uses the first index", [Edit(_T, "_next_pos", "new_x += cmd_args[x_coord_idxs[-1]]", "new_x += cmd_args[x_coord_idxs[0]]")],
            [("R-CASE.rewrite", "SVGPath.")]),
    Variant("polygon forgets Z", [Edit(_T, "SVGPolygon.as_path", 'SVGPath(d="M" + self.points + " Z")', 'SVGPath(d="M" + self.points)')],
            [("R-CASE.builder", "SVGPolygon")]),
    Variant("relative end point of arc not made absolute", [Edit(_T, "SVGPath.arcs_to_cubics", "end_x += curr_pos.x", "end_x += 0")],
            [("R-CASE.arcs", "arcs_to_cubics")]),
    Variant("z does not return to subpath start", [Edit(_T, "SVGPath.walk", "next_pos = subpath_start_pos", "next_pos = curr_pos")],
            [("R-CASE", "SVGPath.")]),
    Variant("leading m not treated as M", [Edit(_T, "SVGPath.walk", 'if idx == 0 and cmd == "m":', 'if idx == 1 and cmd == "m":')],
            [("R-CASE", "SVGPath.")]),
    Variant("move shifts relative commands too", [Edit(_T, "SVGPath.move", "if cmd.islower():\n                return ((cmd, args),)", "if cmd == 'z':\n                return ((cmd, args),)")],
            [("R-CASE.move", "move")]),
    Variant("rect second arc uses wrong corner", [Edit(_T, "SVGRect.as_path", "path.A(rx, ry, x + w - rx, y + h)", "path.A(rx, ry, x + w, y + h - ry)")],
            [("R-CASE.builder", "SVGRect")]),
    Variant("ellipse small arcs", [Edit(_T, "SVGEllipse.as_path", "path.A(rx, ry, cx - rx, cy, large_arc=1)", "path.A(rx, ry, cx - rx, cy)")],
            [("R-CASE.builder", "SVGEllipse")]),
    Variant("round_floats skips when nothing looks long", [Edit(_T, "SVGPath.round_floats", "d, target.d = target.d, \"\"", "if 'e' not in target.d and len(target.d) < 9:\n            return target\n        d, target.d = target.d, \"\"")],
            [("R-CASE.round", "round_floats")], allow_analysis_error=True),
    Variant("rounding only when asked for fewer than 7 digits", [Edit(_T, "SVGPath.round_floats", "d, target.d = target.d, \"\"", "if ndigits > 6:\n            return target\n        d, target.d = target.d, \"\"")],
            [("R-CASE.round", "round_floats")]),
    Variant("subpaths does not split after Z", [Edit(_T, "SVGPath.subpaths", 'if cmd.upper() == "Z":\n                subpaths.append(SVGPath())', 'if cmd == "?":\n                subpaths.append(SVGPath())')],
            [("R-CASE.subpaths", "subpaths")]),
    Variant("H target form lost in explicit_lines", [Edit(_T, "_explicit_lines_callback", 'elif cmd == "h":\n        args = (args[0], 0)', 'elif cmd == "hh":\n        args = (args[0], 0)')],
            [("R-CASE", "explicit_lines"), ("R-CASE", "as_cmd_seq")]),
    Variant("silent: rewrite V branch with equivalent arithmetic", [Edit(_T, "_explicit_lines_callback", "args = (0, args[0])", "args = (0 * args[0], args[0] + 0)")], silent=True),
    Variant("silent: reflection written as curr + (curr - prev)", [Edit(_T, "SVGPath.expand_shorthand", "new_cp = (2 * curr_pos.x - prev_cp.x, 2 * curr_pos.y - prev_cp.y)",
                                                                          "new_cp = (curr_pos.x + (curr_pos.x - prev_cp.x), curr_pos.y + (curr_pos.y - prev_cp.y))")], silent=True),
]

"""E4: typestate analysis of the lazily flushed shape cache of class SVG (property C15).

Abstract state at a program point: a set of (cache, obligation) pairs with
  cache in  N (self.elements empty: tree authoritative)
            P (populated, identical to the tree)
            D (populated, holds edits not yet written to the tree)
  obligation = the tree was written while the cache was populated and neither a reset nor a
               flush has happened since (the cache shadows detached/changed elements).
The analysis is syntax-directed over the statements of a method (loops to a fixpoint, both arms
of every branch, branch refinement on `if self.elements` / constant `inplace`), walks every
expression in evaluation order and inlines calls to other methods of `self` in the caller's
state (context-sensitive, depth-bounded).  Events are classified from resolved callees and
def-use provenance (a shape is "cache-derived" when it was bound from self.shapes() /
self._elements() / self.elements), not from names alone.
"""
from __future__ import annotations

import ast
from dataclasses import dataclass, field
from typing import Dict, FrozenSet, List, Optional, Set, Tuple

from sa.core import AnalysisError, Module, Repo, call_name, unparse

State = FrozenSet[Tuple[str, bool]]
ALL = frozenset({("N", False), ("P", False), ("D", False)})

LXML_MUTATORS = {"remove", "append", "insert", "replace", "addnext", "addprevious", "extend", "clear"}
ATTRIB_MUTATORS = {"pop", "update", "clear", "setdefault", "popitem"}
TREE_QUERIES = {"xpath", "getparent", "getiterator", "iter", "iterchildren", "iterancestors", "index", "getchildren"}


@dataclass
class TSFinding:
    rule: str
    method: str  # entry method
    where: str  # function in which the construct sits
    construct: str
    message: str
    line: int
    chain: Tuple[str, ...]


class TreeWriters:
    """Module-level helpers (and methods) that mutate lxml elements reachable from their parameters."""

    def __init__(self, mod: Module):
        self.mod = mod
        self.writers: Set[str] = set()
        funcs = {q: f for q, f in mod.functions.items() if "<locals>" not in q}
        direct = {q for q, f in funcs.items() if self._direct(f)}
        self.writers = set(direct)
        changed = True
        while changed:
            changed = False
            for q, f in funcs.items():
                if q in self.writers:
                    continue
                for c in ast.walk(f):
                    if isinstance(c, ast.Call):
                        nm = call_name(c)
                        base = nm.split(".")[-1]
                        if nm in self.writers or (nm.startswith("self.") and f"SVG.{base}" in self.writers) or \
                                (isinstance(c.func, ast.Name) and c.func.id in self.writers):
                            self.writers.add(q)
                            changed = True
                            break

    @staticmethod
    def _direct(f) -> bool:
        for n in ast.walk(f):
            if isinstance(n, ast.Call) and isinstance(n.func, ast.Attribute):
                if n.func.attr in LXML_MUTATORS and not _is_plain_list_op(n) and not _is_str_op(n):
                    return True
                if n.func.attr in ATTRIB_MUTATORS and unparse(n.func.value).endswith(".attrib"):
                    return True
            if isinstance(n, (ast.Assign, ast.AugAssign, ast.Delete)):
                tg = n.targets if not isinstance(n, ast.AugAssign) else [n.target]
                for t in tg:
                    if isinstance(t, ast.Subscript) and unparse(t.value).endswith(".attrib"):
                        return True
                    if isinstance(t, ast.Subscript) and isinstance(t.slice, ast.Slice) and not unparse(t.value).startswith(("self.elements", "args", "raw_args")):
                        # new_tree[:] = tree[:]
                        return True
        return False


def _is_str_op(call: ast.Call) -> bool:
    """str.replace("a", "b") / str.index("x"): an argument is a string literal (lxml's take elements)."""
    return any(isinstance(a, ast.Constant) and isinstance(a.value, str) for a in call.args)


def _is_plain_list_op(call: ast.Call) -> bool:
    """append/extend/insert/remove/clear on an obviously local python list (name assigned from a list display)."""
    base = call.func.value
    if not isinstance(base, ast.Name):
        return False
    fn = base
    p = getattr(call, "_parent", None)
    while p is not None and not isinstance(p, (ast.FunctionDef, ast.AsyncFunctionDef, ast.Lambda)):
        p = getattr(p, "_parent", None)
    if p is None or isinstance(p, ast.Lambda):
        return isinstance(p, ast.Lambda)  # lambda f, e: f.extend(e) over the frontier list
    for n in ast.walk(p):
        if isinstance(n, ast.Assign):
            for t in n.targets:
                if isinstance(t, ast.Name) and t.id == base.id and isinstance(n.value, (ast.List, ast.ListComp)) or \
                        (isinstance(t, ast.Name) and t.id == base.id and isinstance(n.value, ast.Call)
                         and call_name(n.value) in ("list", "deque", "set", "defaultdict", "dict")):
                    return True
    return False


class CacheTypestate:
    def __init__(self, repo: Repo, cls="SVG", modname="svg", max_depth=8,
                 pure_queries=("xpath", "xpath_one", "resolve_url")):
        self.repo = repo
        self.mod = repo[modname]
        self.cls = cls
        self.max_depth = max_depth
        self.pure_queries = set(pure_queries)
        self.tw = TreeWriters(self.mod)
        self.findings: List[TSFinding] = []
        self.events: List[Tuple[str, str, str]] = []  # (entry, event, construct) log for evidence
        self.methods = {q.split(".", 1)[1]: f for q, f in self.mod.functions.items()
                        if q.startswith(cls + ".") and q.count(".") == 1}
        self.inlined: Set[str] = set()

    # -- reporting ------------------------------------------------------------------
    def report(self, rule, node, message, ctx):
        f = TSFinding(rule, ctx["entry"], ctx["func"], unparse(node)[:120], message, getattr(node, "lineno", 0), tuple(ctx["chain"]))
        key = (f.rule, f.method, f.where, f.construct)
        if key not in {(g.rule, g.method, g.where, g.construct) for g in self.findings}:
            self.findings.append(f)

    # -- transfer helpers -----------------------------------------------------------
    @staticmethod
    def _map(state: State, fn) -> State:
        return frozenset(fn(c, o) for c, o in state)

    def ev_flush(self, state, node, ctx):
        self.events.append((ctx["entry"], "FLUSH", unparse(node)[:60]))
        return self._map(state, lambda c, o: ("N", False))

    def ev_reset(self, state, node, ctx):
        if any(c == "D" for c, _ in state) and not ctx.get("primitive"):
            self.report("R-TS.reset-discards-edits", node,
                        "cache reset while it may hold edits not yet written to the tree (state D): the edits are lost", ctx)
        self.events.append((ctx["entry"], "RESET", unparse(node)[:60]))
        return self._map(state, lambda c, o: ("N", False))

    def ev_populate(self, state, node, ctx):
        self.events.append((ctx["entry"], "POPULATE", unparse(node)[:60]))
        return self._map(state, lambda c, o: ("P", o))

    def ev_cache_write(self, state, node, ctx):
        if any(c == "N" for c, _ in state):
            self.report("R-TS.lost-edit", node,
                        "shape taken from the cache is edited after the cache was emptied (state N): the edit never reaches the tree", ctx)
        self.events.append((ctx["entry"], "CACHE-WRITE", unparse(node)[:60]))
        return self._map(state, lambda c, o: ("D", o))

    def ev_tree_read(self, state, node, ctx):
        if any(c == "D" for c, _ in state) and not ctx.get("exempt_reads"):
            self.report("R-TS.stale-read", node,
                        "the element tree is read while the cache may hold unflushed edits (state D): stale content is used", ctx)
        self.events.append((ctx["entry"], "TREE-READ", unparse(node)[:60]))
        return state

    def ev_tree_write(self, state, node, ctx):
        if any(c == "D" for c, _ in state):
            self.report("R-TS.write-under-dirty-cache", node,
                        "the element tree is modified while the cache may hold unflushed edits (state D): the later flush swaps "
                        "cached shapes over a changed tree", ctx)
        self.events.append((ctx["entry"], "TREE-WRITE", unparse(node)[:60]))
        return self._map(state, lambda c, o: (c, True if c in ("P", "D") else o))

    # -- expression walk in evaluation order ------------------------------------------
    def expr(self, node, state: State, env: dict, ctx) -> State:
        if node is None or not state:
            return state
        if isinstance(node, ast.Call):
            return self.call(node, state, env, ctx)
        if isinstance(node, ast.Attribute):
            state = self.expr(node.value, state, env, ctx)
            if isinstance(node.value, ast.Name) and node.value.id == "self" and node.attr == "svg_root" and isinstance(node.ctx, ast.Load):
                par = getattr(node, "_parent", None)
                if isinstance(par, ast.Attribute) and par.attr in ("attrib", "nsmap", "tag"):
                    return state  # root attribute/namespace read: the root is never a cached shape
                return self.ev_tree_read(state, node, ctx)
            return state
        if isinstance(node, (ast.GeneratorExp, ast.ListComp, ast.SetComp, ast.DictComp)):
            # body attributed to this position (lazily consumed generator arguments are consumed by the callee)
            env2 = dict(env)
            for g in node.generators:
                state = self.expr(g.iter, state, env2, ctx)
                self.bind_target(g.target, g.iter, env2)
                for c in g.ifs:
                    state = self.expr(c, state, env2, ctx)
            body = [node.key, node.value] if isinstance(node, ast.DictComp) else [node.elt]
            # the element expression runs once per item: fixpoint over two rounds
            s2 = state
            for _ in range(2):
                for b in body:
                    s2 = self.expr(b, s2, env2, ctx)
                s2 = s2 | state
            return s2
        if isinstance(node, ast.Lambda):
            return state
        if isinstance(node, ast.IfExp):
            state = self.expr(node.test, state, env, ctx)
            return self.expr(node.body, state, env, ctx) | self.expr(node.orelse, state, env, ctx)
        if isinstance(node, ast.BoolOp):
            s = self.expr(node.values[0], state, env, ctx)
            out = s
            for v in node.values[1:]:
                s = self.expr(v, s, env, ctx)
                out = out | s
            return out
        for ch in ast.iter_child_nodes(node):
            if isinstance(ch, (ast.expr, ast.keyword, ast.comprehension, ast.Starred, ast.Slice)) or isinstance(ch, ast.AST):
                if isinstance(ch, (ast.expr_context, ast.operator, ast.cmpop, ast.boolop, ast.unaryop)):
                    continue
                state = self.expr(ch, state, env, ctx)
        return state

    def is_cache_expr(self, node, env) -> bool:
        """Does the expression evaluate to (a container of / an element of) cached shapes?"""
        if isinstance(node, ast.Call):
            nm = call_name(node)
            if nm in ("self.shapes", "self._elements"):
                return True
            if nm in ("enumerate", "reversed", "list", "tuple", "iter", "zip", "sorted") and node.args:
                return any(self.is_cache_expr(a, env) for a in node.args)
            if isinstance(node.func, ast.Attribute):
                # x.as_path() may return x itself; x.m(inplace=True) returns x
                if self.is_cache_expr(node.func.value, env):
                    inpl = any(k.arg == "inplace" and getattr(k.value, "value", None) is True for k in node.keywords)
                    if node.func.attr in ("as_path",) or inpl:
                        return True
            return False
        if isinstance(node, ast.Attribute):
            return isinstance(node.value, ast.Name) and node.value.id == "self" and node.attr == "elements"
        if isinstance(node, ast.Name):
            return env.get(node.id) == "cache"
        if isinstance(node, ast.Subscript):
            return self.is_cache_expr(node.value, env)
        if isinstance(node, (ast.Tuple, ast.List)):
            return any(self.is_cache_expr(e, env) for e in node.elts)
        return False

    def bind_target(self, target, value, env):
        tainted = self.is_cache_expr(value, env)
        for n in ast.walk(target):
            if isinstance(n, ast.Name):
                # element handles (`el`) in (el, shapes) tuples are tree nodes, shapes are cache objects; both come from the cache
                env[n.id] = "cache" if tainted else env.get(n.id) if False else ("cache" if tainted else None)

    def call(self, node: ast.Call, state: State, env, ctx) -> State:
        nm = call_name(node)
        f = node.func
        # receiver and arguments first (evaluation order)
        if isinstance(f, ast.Attribute):
            state = self.expr(f.value, state, env, ctx)
        for a in node.args:
            state = self.expr(a.value if isinstance(a, ast.Starred) else a, state, env, ctx)
        for k in node.keywords:
            state = self.expr(k.value, state, env, ctx)
        if not state:
            return state
        # --- self.method(...)
        if isinstance(f, ast.Attribute) and isinstance(f.value, ast.Name) and f.value.id == "self":
            m = f.attr
            if m == "_update_etree":
                return self.ev_flush(state, node, ctx)
            if m in self.methods:
                return self.inline(m, node, state, ctx)
            if m == "_inherited_attrib" or m.startswith("_inherited_attrib"):
                return state
            return state
        # --- lru_cache bookkeeping
        if nm.endswith(".cache_clear"):
            return state
        # --- mutation of a cache-derived shape
        if isinstance(f, ast.Attribute) and self.is_cache_expr(f.value, env):
            inpl = any(k.arg == "inplace" and getattr(k.value, "value", None) is True for k in node.keywords)
            if inpl:
                return self.ev_cache_write(state, node, ctx)
            return state
        # --- copy.deepcopy(self.svg_root) handled by the attribute load (TREE-READ)
        # --- lxml mutators on tree nodes
        if isinstance(f, ast.Attribute) and f.attr in LXML_MUTATORS and not _is_plain_list_op(node) and not _is_str_op(node) \
                and not unparse(f.value).startswith(("self.elements",)):
            if self._looks_like_element(f.value, env, ctx):
                return self.ev_tree_write(state, node, ctx)
            return state
        if isinstance(f, ast.Attribute) and f.attr in ATTRIB_MUTATORS and unparse(f.value).endswith(".attrib"):
            return self.ev_tree_write(state, node, ctx)
        # --- module helpers / static methods that write the tree
        callee = nm.split(".")[-1]
        if (isinstance(f, ast.Name) and f.id in self.tw.writers) or (nm.startswith(("self.", "SVG.")) and f"SVG.{callee}" in self.tw.writers):
            return self.ev_tree_write(state, node, ctx)
        if nm in ("parse_css_declarations",) and len(node.args) > 1 and unparse(node.args[1]).endswith(".attrib"):
            return self.ev_tree_write(state, node, ctx)
        return state

    def _looks_like_element(self, node, env, ctx) -> bool:
        """Conservative: receivers that are plain local python containers are excluded by _is_plain_list_op;
        anything else reached through the tree API is treated as an element."""
        t = unparse(node)
        if t in ("errors", "bad_paths", "remove", "updates", "swaps", "new_entries", "frontier", "parents", "subpaths",
                 "result", "el_to_rm", "attr_to_rm", "elements", "used_gradient_ids", "paths_required", "good_ns", "done_ids", "cmds"):
            return False
        return True

    # -- statements --------------------------------------------------------------------
    def block(self, stmts, state: State, env, ctx) -> Tuple[State, State]:
        """-> (state falling out of the block, union of states at normal `return`s inside it)"""
        returned: State = frozenset()
        for st in stmts:
            if not state:
                break
            state, r = self.stmt(st, state, env, ctx)
            returned |= r
        return state, returned

    def refine(self, test, state: State, env, ctx) -> Tuple[State, State]:
        """(state if test true, state if test false)"""
        t = unparse(test)
        if t == "self.elements":
            return (frozenset(s for s in state if s[0] != "N"), frozenset(s for s in state if s[0] == "N"))
        if t == "not self.elements":
            return (frozenset(s for s in state if s[0] == "N"), frozenset(s for s in state if s[0] != "N"))
        const = ctx["consts"]
        if isinstance(test, ast.Name) and test.id in const:
            return (state, frozenset()) if const[test.id] else (frozenset(), state)
        if isinstance(test, ast.UnaryOp) and isinstance(test.op, ast.Not) and isinstance(test.operand, ast.Name) and test.operand.id in const:
            return (frozenset(), state) if const[test.operand.id] else (state, frozenset())
        return state, state

    def stmt(self, st, state: State, env, ctx) -> Tuple[State, State]:
        none: State = frozenset()
        if isinstance(st, ast.Expr):
            return self.expr(st.value, state, env, ctx), none
        if isinstance(st, (ast.Assign, ast.AnnAssign, ast.AugAssign)):
            value = st.value
            state = self.expr(value, state, env, ctx) if value is not None else state
            targets = st.targets if isinstance(st, ast.Assign) else [st.target]
            for t in targets:
                tt = unparse(t)
                if tt == "self.elements":
                    if value is not None and (isinstance(value, ast.Constant) and value.value is None
                                              or isinstance(value, (ast.List, ast.Tuple)) and not value.elts):
                        state = self.ev_reset(state, st, ctx)
                    else:
                        state = self.ev_populate(state, st, ctx)
                elif tt.startswith("self.elements["):
                    state = self.ev_cache_write(state, st, ctx)
                elif tt == "self.svg_root":
                    state = self.ev_tree_write(state, st, ctx)
                elif isinstance(t, ast.Subscript) and unparse(t.value).endswith(".attrib"):
                    state = self.ev_tree_write(state, st, ctx)
                elif isinstance(t, ast.Attribute) and self.is_cache_expr(t.value, env):
                    state = self.ev_cache_write(state, st, ctx)
                elif isinstance(t, ast.Subscript) and isinstance(t.slice, ast.Slice) and self._looks_like_element(t.value, env, ctx) \
                        and not isinstance(value, (ast.List,)) and "tree" in unparse(t.value):
                    state = self.ev_tree_write(state, st, ctx)
                if value is not None:
                    self.bind_target(t, value, env)
            return state, none
        if isinstance(st, ast.Delete):
            for t in st.targets:
                if isinstance(t, ast.Subscript) and unparse(t.value).endswith(".attrib"):
                    state = self.ev_tree_write(state, st, ctx)
            return state, none
        if isinstance(st, ast.Return):
            state = self.expr(st.value, state, env, ctx) if st.value is not None else state
            return none, state
        if isinstance(st, ast.Raise):
            return none, none
        if isinstance(st, ast.If):
            state = self.expr(st.test, state, env, ctx)
            tr, fa = self.refine(st.test, state, env, ctx)
            s1, r1 = self.block(st.body, tr, dict(env), ctx)
            s2, r2 = self.block(st.orelse, fa, dict(env), ctx)
            return s1 | s2, r1 | r2
        if isinstance(st, (ast.For, ast.While)):
            returned = none
            if isinstance(st, ast.For):
                state = self.expr(st.iter, state, env, ctx)
                self.bind_target(st.target, st.iter, env)
            entry = state
            out = state
            for _ in range(4):
                s = out
                if isinstance(st, ast.While):
                    s = self.expr(st.test, s, env, ctx)
                s, r = self.block(st.body, s, env, ctx)
                returned |= r
                new = out | s
                if new == out:
                    break
                out = new
            if isinstance(st, ast.While) and isinstance(st.test, ast.Constant) and st.test.value:
                # while True: leaves only through break -> states inside the body
                pass
            s_else, r = self.block(st.orelse, out, env, ctx)
            returned |= r
            return out | s_else, returned
        if isinstance(st, ast.Try):
            s, r = self.block(st.body, state, env, ctx)
            outs = s
            for h in st.handlers:
                sh, rh = self.block(h.body, state | s, env, ctx)
                outs |= sh
                r |= rh
            so, ro = self.block(st.orelse, s, env, ctx)
            outs = (outs - s) | so if st.orelse else outs
            r |= ro
            if st.finalbody:
                outs, rf = self.block(st.finalbody, outs, env, ctx)
                r |= rf
            return outs, r
        if isinstance(st, ast.With):
            for it in st.items:
                state = self.expr(it.context_expr, state, env, ctx)
            return self.block(st.body, state, env, ctx)
        if isinstance(st, ast.Assert):
            return self.expr(st.test, state, env, ctx), none
        if isinstance(st, (ast.FunctionDef, ast.ClassDef, ast.Pass, ast.Import, ast.ImportFrom, ast.Break, ast.Continue, ast.Global, ast.Nonlocal)):
            return state, none
        return state, none

    # -- inlining -----------------------------------------------------------------------
    def inline(self, m: str, call: Optional[ast.Call], state: State, ctx) -> State:
        if m in self.pure_queries and ctx["depth"] == 0 and False:
            return state
        if len(ctx["chain"]) > self.max_depth or m in ctx["chain"][1:] and ctx["chain"].count(m) > 1:
            return state
        fn = self.methods[m]
        self.inlined.add(m)
        consts = {}
        if call is not None:
            params = [a.arg for a in fn.args.args][1:]
            for i, a in enumerate(call.args):
                if i < len(params) and isinstance(a, ast.Constant):
                    consts[params[i]] = a.value
            for k in call.keywords:
                if k.arg and isinstance(k.value, ast.Constant):
                    consts[k.arg] = k.value.value
                elif k.arg and isinstance(k.value, ast.Name) and k.value.id in ctx["consts"]:
                    consts[k.arg] = ctx["consts"][k.value.id]
            # defaults
            defs = fn.args.defaults
            for p, d in zip(params[len(params) - len(defs):], defs):
                if p not in consts and isinstance(d, ast.Constant) and p not in {k.arg for k in call.keywords} \
                        and params.index(p) >= len(call.args):
                    consts[p] = d.value
            for p, d in zip(fn.args.kwonlyargs, fn.args.kw_defaults):
                if p.arg not in consts and isinstance(d, ast.Constant) and p.arg not in {k.arg for k in call.keywords}:
                    consts[p.arg] = d.value
        sub = dict(ctx)
        sub.update(func=f"{self.cls}.{m}", chain=ctx["chain"] + [m], consts=consts, depth=ctx["depth"] + 1)
        out, ret = self.block(fn.body, state, {}, sub)
        return out | ret

    def analyse_method(self, m: str, entry_state: State = ALL, consts=None, exempt_reads=False) -> State:
        fn = self.methods[m]
        ctx = {"entry": f"{self.cls}.{m}", "func": f"{self.cls}.{m}", "chain": [m], "consts": dict(consts or {}), "depth": 0,
               "exempt_reads": exempt_reads}
        out, ret = self.block(fn.body, entry_state, {}, ctx)
        final = out | ret
        if any(o for _, o in final):
            self.findings.append(TSFinding(
                "R-TS.exit-with-shadowing-cache", f"{self.cls}.{m}", f"{self.cls}.{m}", f"{m}: normal exit",
                "the tree was modified while the cache was populated and the method returns without resetting or flushing the "
                "cache: cached entries now shadow elements that were changed or detached", fn.lineno, (m,)))
        return final

"""E7: rational functions over symbolic atoms with exact (Fraction) coefficients.

A value is RF(num, den) with num, den polynomials: dict {monomial: Fraction}, a monomial being
a sorted tuple of (atom, exponent).  Atoms are symbol names (str) or applications of opaque
functions ('cos', argkey), ('min', (argkeys...)) ...  Equality is decided by cross-multiplication
and a canonicalisation that knows cos(-x)=cos(x), sin(-x)=-sin(x), tan(-x)=-tan(x), sin^2=1-cos^2,
abs/fabs idempotence and commutativity of min/max.  Floating-point rounding is ignored by
construction (that is the documented limit of the rule family R-POLY).
"""
from __future__ import annotations

from fractions import Fraction
from typing import Dict, Tuple

Mono = Tuple[Tuple[object, int], ...]


def _key(a):
    return repr(a)


class Poly:
    __slots__ = ("t",)

    def __init__(self, terms: Dict[Mono, Fraction] = None):
        self.t = {m: c for m, c in (terms or {}).items() if c != 0}

    @staticmethod
    def const(c) -> "Poly":
        c = Fraction(c)
        return Poly({(): c}) if c != 0 else Poly()

    @staticmethod
    def atom(a) -> "Poly":
        return Poly({((a, 1),): Fraction(1)})

    def __add__(self, o: "Poly") -> "Poly":
        t = dict(self.t)
        for m, c in o.t.items():
            t[m] = t.get(m, 0) + c
        return Poly(t)

    def __neg__(self):
        return Poly({m: -c for m, c in self.t.items()})

    def __sub__(self, o):
        return self + (-o)

    def __mul__(self, o: "Poly") -> "Poly":
        t: Dict[Mono, Fraction] = {}
        for m1, c1 in self.t.items():
            for m2, c2 in o.t.items():
                m = _mul_mono(m1, m2)
                t[m] = t.get(m, 0) + c1 * c2
        return Poly(t)

    def is_zero(self) -> bool:
        return not self.canon().t

    def is_const(self) -> bool:
        return all(m == () for m in self.t)

    def const_value(self) -> Fraction:
        return self.t.get((), Fraction(0))

    def canon(self) -> "Poly":
        """Apply sin^2 -> 1 - cos^2 until no sine has exponent >= 2."""
        p = self
        for _ in range(64):
            changed = False
            t: Dict[Mono, Fraction] = {}
            for m, c in p.t.items():
                idx = next((i for i, (a, e) in enumerate(m) if isinstance(a, tuple) and a[0] == "sin" and e >= 2), None)
                if idx is None:
                    t[m] = t.get(m, 0) + c
                    continue
                changed = True
                a, e = m[idx]
                rest = m[:idx] + (((a, e - 2),) if e > 2 else ()) + m[idx + 1:]
                cosa = ("cos", a[1])
                m1 = _mul_mono(rest, ())
                m2 = _mul_mono(rest, ((cosa, 2),))
                t[m1] = t.get(m1, 0) + c
                t[m2] = t.get(m2, 0) - c
            p = Poly(t)
            if not changed:
                break
        return p

    def atoms(self):
        s = set()
        for m in self.t:
            for a, _ in m:
                s.add(a if not isinstance(a, tuple) else a)
        return s

    def key(self):
        return tuple(sorted(((tuple((_key(a), e) for a, e in m)), str(c)) for m, c in self.canon().t.items()))

    def __repr__(self):
        if not self.t:
            return "0"
        parts = []
        for m, c in sorted(self.t.items(), key=lambda kv: (len(kv[0]), _key(kv[0]))):
            mon = "*".join((_show_atom(a) + (f"^{e}" if e != 1 else "")) for a, e in m)
            if not mon:
                parts.append(_show_c(c))
            elif c == 1:
                parts.append(mon)
            elif c == -1:
                parts.append("-" + mon)
            else:
                parts.append(f"{_show_c(c)}*{mon}")
        return " + ".join(parts).replace("+ -", "- ")


def _show_c(c: Fraction):
    return str(c.numerator) if c.denominator == 1 else f"{c.numerator}/{c.denominator}"


def _show_atom(a):
    if isinstance(a, tuple):
        return f"{a[0]}({a[1] if len(a) == 2 else ', '.join(map(str, a[1:]))})"
    return str(a)


def _mul_mono(m1: Mono, m2: Mono) -> Mono:
    d = {}
    for a, e in m1 + m2:
        d[a] = d.get(a, 0) + e
    return tuple(sorted(((a, e) for a, e in d.items() if e != 0), key=lambda ae: _key(ae[0])))


class RF:
    """num/den, den never the zero polynomial."""
    __slots__ = ("n", "d")

    def __init__(self, n: Poly, d: Poly = None):
        self.n = n
        self.d = d if d is not None else Poly.const(1)
        if not self.n.canon().t:
            # 0 / d = 0 (d is never the zero polynomial)
            self.n, self.d = Poly.const(0), Poly.const(1)
        if self.d.is_const() and self.d.t and self.d.const_value() != 1:
            c = self.d.const_value()
            self.n = Poly({m: v / c for m, v in self.n.t.items()})
            self.d = Poly.const(1)
        elif not self.d.is_const() and self.d.t:
            # one representative per value: the denominator's first monomial (fixed order) gets coefficient 1
            k = min(self.d.t, key=repr)
            c = self.d.t[k]
            if c != 1:
                self.n = Poly({m: v / c for m, v in self.n.t.items()})
                self.d = Poly({m: v / c for m, v in self.d.t.items()})

    @staticmethod
    def of(x) -> "RF":
        if isinstance(x, RF):
            return x
        if isinstance(x, bool):
            x = int(x)
        if isinstance(x, (int, Fraction)):
            return RF(Poly.const(x))
        if isinstance(x, float):
            if x != x or x in (float("inf"), float("-inf")):
                return RF(Poly.atom(("float", repr(x))))
            return RF(Poly.const(Fraction(x)))
        raise TypeError(f"not numeric: {x!r}")

    @staticmethod
    def sym(name) -> "RF":
        return RF(Poly.atom(name))

    def __add__(self, o):
        o = RF.of(o)
        if self.d.key() == o.d.key():
            return RF(self.n + o.n, self.d)
        return RF(self.n * o.d + o.n * self.d, self.d * o.d)

    __radd__ = __add__

    def __neg__(self):
        return RF(-self.n, self.d)

    def __sub__(self, o):
        return self + (-RF.of(o))

    def __rsub__(self, o):
        return RF.of(o) - self

    def __mul__(self, o):
        o = RF.of(o)
        return RF(self.n * o.n, self.d * o.d)

    __rmul__ = __mul__

    def __truediv__(self, o):
        o = RF.of(o)
        if o.n.is_zero():
            raise ZeroDivisionError("symbolic division by the zero polynomial")
        return RF(self.n * o.d, self.d * o.n)

    def __rtruediv__(self, o):
        return RF.of(o) / self

    def __pow__(self, e):
        if isinstance(e, RF) and e.is_const():
            e = e.const_value()
        if isinstance(e, Fraction) and e.denominator == 1:
            e = int(e)
        if not isinstance(e, int):
            raise TypeError("symbolic exponent")
        if e < 0:
            return RF.of(1) / (self ** (-e))
        r = RF.of(1)
        for _ in range(e):
            r = r * self
        return r

    def is_const(self):
        return self.n.canon().is_const() and self.d.canon().is_const()

    def const_value(self) -> Fraction:
        return self.n.canon().const_value() / self.d.canon().const_value()

    def equals(self, o) -> bool:
        o = RF.of(o)
        return (self.n * o.d - o.n * self.d).is_zero()

    def is_zero(self):
        return self.n.is_zero()

    def key(self):
        if self.d.is_const():
            return ("p", self.n.key())
        return ("rf", self.n.key(), self.d.key())

    def leading_sign(self) -> int:
        """Sign of the first coefficient in canonical order (used to normalise f(-x))."""
        k = sorted(self.n.canon().t.items(), key=lambda kv: _key(kv[0]))
        if not k:
            return 0
        return 1 if k[0][1] > 0 else -1

    def atoms(self):
        return self.n.atoms() | self.d.atoms()

    def subst(self, mapping) -> "RF":
        """Replace plain symbols by values (numbers or RF). Symbols inside opaque function atoms are untouched."""
        if not mapping:
            return self

        def ev(p: Poly) -> "RF":
            tot = RF.of(0)
            for m, c in p.t.items():
                term = RF.of(c)
                for a, e in m:
                    base = RF.of(mapping[a]) if (isinstance(a, str) and a in mapping) else RF(Poly.atom(a))
                    term = term * (base ** e)
                tot = tot + term
            return tot

        return ev(self.n) / ev(self.d)

    def plain_symbol(self):
        """Name if this is exactly one symbol with coefficient 1, else None."""
        if self.d.is_const() and len(self.n.t) == 1:
            (m, c), = self.n.t.items()
            if c == 1 and len(m) == 1 and m[0][1] == 1 and isinstance(m[0][0], str):
                return m[0][0]
        return None

    def __repr__(self):
        if self.d.is_const():
            return repr(self.n)
        return f"({self.n!r}) / ({self.d!r})"


def fn_atom(name: str, *args) -> RF:
    """Opaque function application as an atom, with the identities listed in the module docstring."""
    args = [RF.of(a) for a in args]
    if name in ("cos", "sin", "tan") and len(args) == 1:
        a = args[0]
        if a.is_zero():
            return RF.of(1 if name == "cos" else 0)
        if a.leading_sign() < 0:
            pos = fn_atom(name, -a)
            return pos if name == "cos" else -pos
        return RF(Poly.atom((name, repr(a))))
    if name in ("abs", "fabs") and len(args) == 1:
        a = args[0]
        if a.is_const():
            return RF.of(abs(a.const_value()))
        at = a.atoms()
        # abs(abs(x)) = abs(x); abs(x*x) = x*x not attempted
        if a.d.is_const() and len(a.n.t) == 1:
            (m, c), = a.n.t.items()
            if len(m) == 1 and isinstance(m[0][0], tuple) and m[0][0][0] == "abs" and m[0][1] == 1 and c == 1:
                return a
        if a.leading_sign() < 0:
            a = -a
        return RF(Poly.atom(("abs", repr(a))))
    if name == "round" and len(args) == 2 and args[0].d.is_const() and len(args[0].n.t) == 1:
        # round(round(x, n), n) = round(x, n)
        (m, c), = args[0].n.t.items()
        if len(m) == 1 and isinstance(m[0][0], tuple) and m[0][0][0] == "round" and m[0][1] == 1 and c == 1 and len(m[0][0]) == 3 and m[0][0][2] == repr(args[1]):
            return args[0]
    if name in ("min", "max"):
        if all(a.is_const() for a in args):
            f = min if name == "min" else max
            return RF.of(f(a.const_value() for a in args))
        ks = tuple(sorted({repr(a) for a in args}))
        if len(ks) == 1:
            return args[0]
        return RF(Poly.atom((name,) + ks))
    if name == "sqrt" and len(args) == 1 and args[0].is_const():
        v = args[0].const_value()
        for cand in (Fraction(int(v.numerator ** 0.5)), ):
            pass
        import math
        n, d = v.numerator, v.denominator
        rn, rd = math.isqrt(n) if n >= 0 else -1, math.isqrt(d)
        if n >= 0 and rn * rn == n and rd * rd == d:
            return RF.of(Fraction(rn, rd))
    if name == "radians" and len(args) == 1:
        a = args[0]
        if a.is_zero():
            return RF.of(0)
        if a.leading_sign() < 0:
            return -fn_atom("radians", -a)
        return RF(Poly.atom(("radians", repr(a))))
    return RF(Poly.atom((name,) + tuple(repr(a) for a in args)))

"""CLI driver: ./check CNN [--tier quick|thorough] [--replay FILE] [--selftest-only] [--list]"""
from __future__ import annotations

import argparse
import importlib
import json
import os
import sys
import time
import traceback

sys.path.insert(0, os.path.dirname(os.path.dirname(os.path.abspath(__file__))))
sys.dont_write_bytecode = True

from sa.core import AnalysisError, Repo, Report, finish  # noqa: E402


def load_rules(prop: str):
    try:
        return importlib.import_module(f"sa.rules.{prop.lower()}")
    except ModuleNotFoundError as e:
        if e.name == f"sa.rules.{prop.lower()}":
            raise AnalysisError(f"no rule module for property {prop}")
        raise


def analyse(prop: str, repo: Repo, tier: str) -> Report:
    mod = load_rules(prop)
    report = Report(prop, tier)
    mod.run(repo, report)
    return report


def main(argv=None) -> int:
    ap = argparse.ArgumentParser()
    ap.add_argument("prop")
    ap.add_argument("--tier", default=os.environ.get("VERIF_TIER") or "quick", choices=["quick", "thorough"])
    ap.add_argument("--replay")
    ap.add_argument("--jobs", type=int, default=int(os.environ.get("VERIF_JOBS", "16")))
    args = ap.parse_args(argv)
    prop = args.prop.upper()
    t0 = time.time()
    try:
        repo = Repo()
        mod = load_rules(prop)
        report = Report(prop, args.tier)
        try:
            mod.run(repo, report)
        except AnalysisError as e:
            # a rule already reported a violation and a later rule could not interpret the code: the violation stands
            from sa.core import load_known
            known = {(k["rule"], k["function"], k["construct"]) for k in load_known(prop)}
            if not any(f.key() not in known for f in report.findings):
                raise
            report.notes.append(f"analysis incomplete after the reported violation(s): {e}")
            print(f"NOTE: analysis incomplete after the reported violation(s): {e}")
        if args.replay:
            with open(args.replay) as fh:
                want = json.load(fh)
            key = (want["rule"], want["function"], want["construct"])
            hit = [f for f in report.findings if f.key() == key]
            if hit:
                f = hit[0]
                print(f"REPLAY: still reported: {f.file}:{f.line}: [{f.rule}] {f.function}: {f.message}")
                print(f"VIOLATION property={prop} replay={args.replay}")
                return 1
            print(f"REPLAY: finding {key} is no longer reported on the current tree")
            return 0
        if args.tier == "thorough":
            from sa.selftest import run_selftest

            report.selftest = run_selftest(prop, mod, repo, report, jobs=args.jobs)
            bad = [v for v in report.selftest["variants"] if v["status"] == "FAILED"]
            if bad:
                for v in bad:
                    print(f"SELFTEST-FAILED {prop} variant={v['name']}: {v['detail']}")
                raise AnalysisError(
                    f"self-test: {len(bad)} variant(s) on which a rule must fire (or stay silent) did not behave; "
                    "a rule that no longer fires cannot be trusted to pass"
                )
        return finish(report, t0, mod.EXPLANATION, getattr(mod, "ASSUMPTIONS", ()),
                      exhaustive=getattr(mod, "EXHAUSTIVE", False))
    except AnalysisError as e:
        print(f"ANALYSIS-ERROR property={prop}: {e}")
        return 2
    except Exception:
        tb = traceback.format_exc()
        print(f"ANALYSIS-ERROR property={prop}: internal error in the analyser\n{tb}")
        return 2


if __name__ == "__main__":
    rc = main()
    sys.stdout.flush()
    os._exit(rc)

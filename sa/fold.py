"""E1: whitelisted constant folder for module-level tables.

Evaluates the *syntax* of module-level assignments over a small value domain:
Python literals and containers, `Ref` (a named function/class of the package or of a
third-party module), `Regex`, `Partial`, `Opaque`.  Anything outside the whitelist
becomes Opaque(text) - it is never executed.
"""
from __future__ import annotations

import ast
from dataclasses import dataclass
from types import MappingProxyType
from typing import Any, Dict, List, Optional, Tuple

from sa.core import AnalysisError, Module, Repo, unparse


@dataclass(frozen=True)
class Ref:
    module: str  # picosvg module name or third-party dotted prefix
    name: str  # qualified name inside it
    kind: str = "name"  # function | class | name | external

    def __repr__(self):
        return f"<{self.module}.{self.name}>"


@dataclass(frozen=True)
class Opaque:
    text: str

    def __repr__(self):
        return f"<?{self.text}>"


@dataclass(frozen=True)
class Regex:
    pattern: Any
    flags: int = 0


@dataclass(frozen=True)
class Partial:
    func: Any
    args: tuple


@dataclass(frozen=True)
class Lambda:
    module: str
    text: str


@dataclass(frozen=True)
class FieldInfo:
    name: str
    type: Any
    default: Any  # MISSING sentinel string "<MISSING>" when absent
    owner: str


MISSING = "<MISSING>"


class Unfoldable(Exception):
    pass


class Folder:
    def __init__(self, repo: Repo):
        self.repo = repo
        self._env: Dict[str, Dict[str, Any]] = {}
        self._in_progress = set()

    # ---- public ---------------------------------------------------------------
    def module_env(self, modname: str) -> Dict[str, Any]:
        if modname in self._env:
            return self._env[modname]
        if modname in self._in_progress:
            return {}
        self._in_progress.add(modname)
        mod = self.repo[modname]
        env: Dict[str, Any] = {}
        self._env[modname] = env
        self._exec_body(mod, mod.tree.body, env)
        self._in_progress.discard(modname)
        return env

    def _via_interpreter(self, modname: str, name: str):
        """Second opinion for a table the constant folder cannot evaluate (it calls a function the folder does not inline):
        the module-level expression is interpreted by the abstract interpreter; only plain data comes back."""
        from fractions import Fraction
        from sa.sym import Interp, Closure, ClassRef, Undecided, PyRaise, _unh

        def conv(v):
            if isinstance(v, dict):
                return {_unh(k): conv(x) for k, x in v.items() if k != "__default_factory__"}
            if isinstance(v, (list, tuple)):
                return type(v)(conv(x) for x in v)
            if isinstance(v, (set, frozenset)):
                return type(v)(conv(_unh(x)) for x in v)
            if isinstance(v, Closure):
                return Ref(v.mod.name, v.name, "function")
            if isinstance(v, ClassRef):
                return Ref(v.module, v.name, "class")
            if isinstance(v, Fraction):
                return int(v) if v.denominator == 1 else float(v)
            if v is None or isinstance(v, (str, int, float, bool)):
                return v
            raise ValueError(type(v).__name__)

        try:
            it = Interp(self.repo)
            return conv(it.module_ns(self.repo[modname], name))
        except (Undecided, PyRaise, ValueError, KeyError, AttributeError, TypeError):
            return None

    def table(self, modname: str, name: str, require=True):
        env = self.module_env(modname)
        if name in env and isinstance(env[name], Opaque):
            alt = self._via_interpreter(modname, name)
            if alt is not None:
                env[name] = alt
        if name not in env or isinstance(env[name], Opaque):
            if require:
                raise AnalysisError(f"table {modname}.{name} could not be folded ({env.get(name, 'absent')})")
            return None
        return env[name]

    def class_attrs(self, modname: str, clsname: str) -> Dict[str, Any]:
        mod = self.repo[modname]
        cls = mod.cls(clsname)
        env = dict(self.module_env(modname))
        local: Dict[str, Any] = {}
        for st in cls.body:
            if isinstance(st, ast.Assign) and len(st.targets) == 1 and isinstance(st.targets[0], ast.Name):
                local[st.targets[0].id] = self._eval(mod, st.value, {**env, **local})
            elif isinstance(st, ast.AnnAssign) and isinstance(st.target, ast.Name) and st.value is not None:
                local[st.target.id] = self._eval(mod, st.value, {**env, **local})
        return local

    def dataclass_fields(self, modname: str, clsname: str) -> List[FieldInfo]:
        """Field list in dataclass order (bases first), ClassVar excluded, with folded defaults."""
        mod = self.repo[modname]
        order: List[str] = []
        info: Dict[str, FieldInfo] = {}
        for (m, c) in reversed(self.mro(modname, clsname)):
            env = self.module_env(m.name)
            for st in c.body:
                if isinstance(st, ast.AnnAssign) and isinstance(st.target, ast.Name):
                    ann = unparse(st.annotation)
                    if ann.startswith("ClassVar"):
                        continue
                    if not _is_dataclass(c):
                        continue
                    default = MISSING if st.value is None else self._eval(m, st.value, env)
                    nm = st.target.id
                    if nm not in info:
                        order.append(nm)
                    info[nm] = FieldInfo(nm, ann, default, c.name)
        return [info[n] for n in order]

    def mro(self, modname: str, clsname: str) -> List[Tuple[Module, ast.ClassDef]]:
        """Linearisation good enough for single inheritance + mixins used here (left-to-right DFS, dedup)."""
        out: List[Tuple[Module, ast.ClassDef]] = []
        seen = set()

        def rec(m: Module, c: ast.ClassDef):
            if (m.name, c.name) in seen:
                return
            seen.add((m.name, c.name))
            out.append((m, c))
            for b in c.bases:
                if isinstance(b, ast.Name):
                    r = self.repo.lookup(m, b.id)
                    if r and r[1] == "class":
                        rec(r[0], r[2])

        rec(self.repo[modname], self.repo[modname].cls(clsname))
        return out

    # ---- statements -----------------------------------------------------------
    def _exec_body(self, mod: Module, body, env):
        for st in body:
            try:
                self._exec(mod, st, env)
            except Unfoldable:
                pass

    def _exec(self, mod: Module, st, env):
        if isinstance(st, ast.Assign):
            val = self._eval(mod, st.value, env)
            for t in st.targets:
                self._assign(mod, t, val, env)
        elif isinstance(st, ast.AnnAssign) and st.value is not None:
            self._assign(mod, st.target, self._eval(mod, st.value, env), env)
        elif isinstance(st, ast.Expr) and isinstance(st.value, ast.Call):
            c = st.value
            if isinstance(c.func, ast.Attribute) and c.func.attr == "update" and isinstance(c.func.value, ast.Name):
                tgt = env.get(c.func.value.id)
                if isinstance(tgt, dict) and len(c.args) == 1:
                    arg = self._eval(mod, c.args[0], env)
                    if isinstance(arg, (dict, MappingProxyType)):
                        tgt.update(arg)
                    else:
                        env[c.func.value.id] = Opaque(unparse(st))
        elif isinstance(st, (ast.FunctionDef, ast.AsyncFunctionDef)):
            env[st.name] = Ref(mod.name, st.name, "function")
        elif isinstance(st, ast.ClassDef):
            env[st.name] = Ref(mod.name, st.name, "class")
        elif isinstance(st, ast.Try):
            self._exec_body(mod, st.body, env)
        elif isinstance(st, ast.If):
            pass

    def _assign(self, mod, target, val, env):
        if isinstance(target, ast.Name):
            env[target.id] = val
        elif isinstance(target, ast.Subscript) and isinstance(target.value, ast.Name):
            d = env.get(target.value.id)
            if isinstance(d, dict):
                k = self._eval(mod, target.slice, env)
                if isinstance(k, Opaque):
                    env[target.value.id] = Opaque(unparse(target))
                else:
                    d[k] = val
        elif isinstance(target, ast.Attribute):
            # e.g. Affine2D._identity = Affine2D(1,0,0,1,0,0): recorded as a dotted name
            env[unparse(target)] = val
        elif isinstance(target, (ast.Tuple, ast.List)) and isinstance(val, (tuple, list)) and len(val) == len(target.elts):
            for t, v in zip(target.elts, val):
                self._assign(mod, t, v, env)

    # ---- expressions ----------------------------------------------------------
    def _name(self, mod: Module, name: str, env):
        if name in env:
            return env[name]
        r = self.repo.lookup(mod, name)
        if r:
            m, kind, node = r
            if kind in ("function", "class"):
                return Ref(m.name, name if name in m.functions or name in m.classes else node.name, kind)
            if kind == "assign":
                e = self.module_env(m.name)
                # the imported name may be a different local alias
                for nm, vals in m.assigns.items():
                    if vals is node:
                        return e.get(nm, Opaque(name))
                return e.get(name, Opaque(name))
            if kind == "module":
                return Ref("picosvg", m.name, "module")
        if name in mod.imports:
            m, attr = mod.imports[name]
            return Ref(m, attr or "", "external")
        if name in ("float", "int", "str", "bool", "tuple", "list", "dict", "set", "frozenset"):
            return Ref("builtins", name, "class")
        return Opaque(name)

    def _eval(self, mod: Module, node, env):
        try:
            return self._ev(mod, node, env)
        except Unfoldable:
            return Opaque(unparse(node))

    def _ev(self, mod: Module, node, env):
        E = lambda n: self._ev(mod, n, env)
        if isinstance(node, ast.Constant):
            return node.value
        if isinstance(node, ast.Name):
            return self._name(mod, node.id, env)
        if isinstance(node, ast.Tuple):
            return tuple(E(e) for e in node.elts)
        if isinstance(node, ast.List):
            return [E(e) for e in node.elts]
        if isinstance(node, ast.Set):
            return _mkset(E(e) for e in node.elts)
        if isinstance(node, ast.Dict):
            d = {}
            for k, v in zip(node.keys, node.values):
                if k is None:
                    vv = E(v)
                    if not isinstance(vv, (dict, MappingProxyType)):
                        raise Unfoldable()
                    d.update(vv)
                else:
                    d[_hashable(E(k))] = E(v)
            return d
        if isinstance(node, ast.JoinedStr):
            parts = []
            for v in node.values:
                if isinstance(v, ast.Constant):
                    parts.append(str(v.value))
                elif isinstance(v, ast.FormattedValue):
                    x = E(v.value)
                    if isinstance(x, (Opaque, Ref)):
                        raise Unfoldable()
                    parts.append(format(x))
            return "".join(parts)
        if isinstance(node, ast.UnaryOp) and isinstance(node.op, ast.USub):
            x = E(node.operand)
            if isinstance(x, (int, float)):
                return -x
            raise Unfoldable()
        if isinstance(node, ast.BinOp):
            l, r = E(node.left), E(node.right)
            if isinstance(l, (Opaque, Ref)) or isinstance(r, (Opaque, Ref)):
                raise Unfoldable()
            try:
                if isinstance(node.op, ast.Add):
                    return l + r
                if isinstance(node.op, ast.Sub):
                    return l - r
                if isinstance(node.op, ast.Mult):
                    return l * r
                if isinstance(node.op, ast.Div):
                    return l / r
                if isinstance(node.op, ast.LShift):
                    return l << r
                if isinstance(node.op, ast.BitOr):
                    return l | r
                if isinstance(node.op, ast.Mod):
                    return l % r
            except Exception:
                raise Unfoldable()
            raise Unfoldable()
        if isinstance(node, ast.Attribute):
            base = E(node.value)
            if isinstance(base, Ref):
                if base.kind == "module" and base.module == "picosvg":
                    m = self.repo[base.name]
                    return self._name(m, node.attr, self.module_env(m.name))
                if base.kind == "class" and base.module in self.repo.modules:
                    dotted = f"{base.name}.{node.attr}"
                    e = self.module_env(base.module)
                    if dotted in e:
                        return e[dotted]
                    return Ref(base.module, dotted, "name")
                return Ref(base.module, (base.name + "." if base.name else "") + node.attr, base.kind)
            if isinstance(base, FieldInfo):
                return getattr(base, node.attr)
            raise Unfoldable()
        if isinstance(node, ast.Subscript):
            base = E(node.value)
            if isinstance(node.slice, ast.Slice):
                lo = E(node.slice.lower) if node.slice.lower else None
                hi = E(node.slice.upper) if node.slice.upper else None
                if isinstance(base, (str, tuple, list)):
                    return base[lo:hi]
                raise Unfoldable()
            k = E(node.slice)
            if isinstance(base, (dict, MappingProxyType, tuple, list, str)):
                try:
                    return base[k]
                except Exception:
                    raise Unfoldable()
            raise Unfoldable()
        if isinstance(node, ast.IfExp):
            t = E(node.test)
            if isinstance(t, (Opaque, Ref)):
                raise Unfoldable()
            return E(node.body) if t else E(node.orelse)
        if isinstance(node, ast.Compare) and len(node.ops) == 1:
            l, r = E(node.left), E(node.comparators[0])
            op = node.ops[0]
            if isinstance(op, (ast.Is, ast.IsNot)):
                res = (l == r) if isinstance(l, Ref) or isinstance(r, Ref) else (l is r)
                return res if isinstance(op, ast.Is) else not res
            if isinstance(l, Opaque) or isinstance(r, Opaque):
                raise Unfoldable()
            if isinstance(op, ast.In):
                return l in r
            if isinstance(op, ast.NotIn):
                return l not in r
            if isinstance(op, ast.Eq):
                return l == r
            if isinstance(op, ast.NotEq):
                return l != r
            raise Unfoldable()
        if isinstance(node, ast.BoolOp):
            vals = [E(v) for v in node.values]
            if any(isinstance(v, Opaque) for v in vals):
                raise Unfoldable()
            if isinstance(node.op, ast.And):
                r = True
                for v in vals:
                    r = r and v
                return r
            r = False
            for v in vals:
                r = r or v
            return r
        if isinstance(node, (ast.DictComp, ast.SetComp, ast.ListComp, ast.GeneratorExp)):
            return self._comp(mod, node, env)
        if isinstance(node, ast.Lambda):
            return Lambda(mod.name, unparse(node))
        if isinstance(node, ast.Call):
            return self._call(mod, node, env)
        raise Unfoldable()

    def _comp(self, mod, node, env):
        results = []

        def rec(i, env2):
            if i == len(node.generators):
                if isinstance(node, ast.DictComp):
                    results.append((_hashable(self._ev(mod, node.key, env2)), self._ev(mod, node.value, env2)))
                else:
                    results.append(self._ev(mod, node.elt, env2))
                return
            g = node.generators[i]
            it = self._ev(mod, g.iter, env2)
            if isinstance(it, (dict, MappingProxyType)):
                it = list(it.keys())
            if isinstance(it, (Opaque, Ref)) or not hasattr(it, "__iter__"):
                raise Unfoldable()
            for item in it:
                e3 = dict(env2)
                self._assign(mod, g.target, item, e3)
                ok = True
                for cond in g.ifs:
                    c = self._ev(mod, cond, e3)
                    if isinstance(c, Opaque):
                        raise Unfoldable()
                    if not c:
                        ok = False
                        break
                if ok:
                    rec(i + 1, e3)

        rec(0, dict(env))
        if isinstance(node, ast.DictComp):
            return dict(results)
        if isinstance(node, ast.SetComp):
            return _mkset(results)
        return list(results) if isinstance(node, ast.ListComp) else tuple(results)

    def _call(self, mod, node: ast.Call, env):
        E = lambda n: self._ev(mod, n, env)
        f = node.func
        # method calls on folded values
        if isinstance(f, ast.Attribute):
            try:
                base = E(f.value)
            except Unfoldable:
                base = Opaque(unparse(f.value))
            args = [E(a) for a in node.args]
            if isinstance(base, str) and f.attr in ("upper", "lower", "strip", "replace", "join", "format", "split"):
                if any(isinstance(a, (Opaque, Ref)) for a in args):
                    raise Unfoldable()
                if f.attr == "join":
                    return base.join(list(args[0]))
                return getattr(base, f.attr)(*args)
            if isinstance(base, (dict, MappingProxyType)) and f.attr in ("items", "keys", "values", "get"):
                if f.attr == "get":
                    return base.get(*args)
                return list(getattr(base, f.attr)())
            if isinstance(base, Ref):
                dotted = (base.name + "." if base.name else "") + f.attr
                if base.module == "re" and f.attr == "compile":
                    pat = args[0]
                    flags = 0
                    return Regex(pat, flags)
                if base.module == "functools" and f.attr == "partial":
                    return Partial(args[0], tuple(args[1:]))
                if base.module == "collections" and f.attr == "defaultdict":
                    d = args[1] if len(args) > 1 and isinstance(args[1], dict) else {}
                    return {"__default_factory__": args[0] if args else None, **d}
                if base.module == "dataclasses" and f.attr == "fields":
                    a = args[0]
                    if isinstance(a, Ref) and a.kind == "class":
                        return self.dataclass_fields(a.module, a.name)
                    raise Unfoldable()
                if base.kind == "module" and base.module == "picosvg":
                    m = self.repo[base.name]
                    return self._call_repo(m, f.attr, args)
                if base.kind == "class" and base.module in self.repo.modules:
                    # constructor-like classmethod or plain construction of a NamedTuple: keep symbolic
                    return Opaque(unparse(node))
            raise Unfoldable()
        if isinstance(f, ast.Name):
            args = [E(a) for a in node.args]
            n = f.id
            if n in ("frozenset", "set"):
                return _mkset(args[0]) if args else _mkset(())
            if n == "tuple":
                return tuple(args[0]) if args else ()
            if n == "list":
                return list(args[0]) if args else []
            if n == "dict":
                d = dict(args[0]) if args else {}
                for k in node.keywords:
                    d[k.arg] = E(k.value)
                return d
            if n == "zip":
                return list(zip(*args))
            if n == "range":
                return list(range(*args))
            if n == "str":
                if isinstance(args[0], (Opaque, Ref)):
                    raise Unfoldable()
                return str(args[0])
            if n == "len":
                return len(args[0])
            if n == "isinstance":
                a, t = args
                if isinstance(a, (Opaque, Ref)):
                    raise Unfoldable()
                tn = t.name if isinstance(t, Ref) else None
                if tn == "Number" or (isinstance(t, Ref) and t.name.endswith("Number")):
                    return isinstance(a, (int, float)) and not isinstance(a, bool)
                if tn in ("float", "int", "str"):
                    return isinstance(a, {"float": float, "int": int, "str": str}[tn])
                raise Unfoldable()
            if n == "MappingProxyType":
                return args[0]
            r = self.repo.lookup(mod, n)
            if r and r[1] == "function":
                return self._call_repo(r[0], r[2].name, args)
            if r and r[1] == "class":
                return Opaque(unparse(node))
            if n in mod.imports and mod.imports[n][0] == "types":
                return args[0]
            raise Unfoldable()
        raise Unfoldable()

    def _call_repo(self, m: Module, fname: str, args):
        """Inline repo functions whose body is a single `return <foldable>` (svgns(), cmds(), ntos on constants)."""
        fn = m.functions.get(fname)
        if fn is None:
            raise Unfoldable()
        body = [s for s in fn.body if not (isinstance(s, ast.Expr) and isinstance(s.value, ast.Constant))]
        if len(body) == 1 and isinstance(body[0], ast.Return) and body[0].value is not None:
            env = dict(self.module_env(m.name))
            params = [a.arg for a in fn.args.args]
            if len(args) > len(params):
                raise Unfoldable()
            for p, a in zip(params, args):
                env[p] = a
            if fname == "ntos" and args and isinstance(args[0], (int, float)):
                n = args[0]
                return str(int(n)) if isinstance(n, float) and n.is_integer() else str(n)
            return self._ev(m, body[0].value, env)
        raise Unfoldable()


class SetVal(frozenset):
    """A folded set: hashable, remembers it is unordered (for the C16 taint rule)."""

    def __repr__(self):
        return "set" + repr(sorted(self, key=repr))


def _mkset(it):
    return SetVal(_hashable(x) for x in it)


def _hashable(x):
    if isinstance(x, list):
        return tuple(_hashable(i) for i in x)
    if isinstance(x, dict):
        return tuple(sorted((k, _hashable(v)) for k, v in x.items()))
    return x


def _is_dataclass(c: ast.ClassDef) -> bool:
    for d in c.decorator_list:
        t = unparse(d)
        if "dataclass" in t:
            return True
    return False

"""Scratch-copy overlay of src/picosvg with a patch applied (development aid)."""
import glob, os, shutil, subprocess, tempfile


def overlay_of(patch):
    tmp = tempfile.mkdtemp(prefix="ov-")
    try:
        os.makedirs(os.path.join(tmp, "src"))
        shutil.copytree("/repo/src/picosvg", os.path.join(tmp, "src", "picosvg"))
        r = subprocess.run(["patch", "-p1", "-s", "-i", patch], cwd=tmp, capture_output=True, text=True)
        if r.returncode != 0:
            raise RuntimeError("patch failed: " + r.stdout + r.stderr)
        ov = {}
        for f in glob.glob(os.path.join(tmp, "src/picosvg/*.py")):
            rel = "src/picosvg/" + os.path.basename(f)
            src = open(f).read()
            if src != open(os.path.join("/repo", rel)).read():
                ov[rel] = src
        return ov
    finally:
        shutil.rmtree(tmp, ignore_errors=True)



import sys; sys.path.insert(0,'/verif')
from sa.core import Repo, PKG_REL
from sa.sym import explore, closure_of
base=Repo()
extra='''

def v_functools():
    import functools, operator
    add3 = functools.partial(lambda a, b, c=0: a + b + c, 1, c=5)
    return add3(2), functools.reduce(operator.mul, [1, 2, 3, 4], 1), functools.reduce(lambda a, b: a + b, [[1], [2]], [])

def v_dispatch(k):
    table = {"a": lambda x: x + 1, "b": lambda x: x * 2}
    handler = table.get(k)
    if handler is None:
        raise ValueError(f"unknown {k!r}")
    return handler(10)

def v_nt():
    from picosvg.geometric_types import Point, Rect, Vector
    p = Point(1, 2)
    q = p._replace(x=5)
    r = Rect(0, 0, 4, 5)
    return q.x, q.y, tuple(p), r.w, r._asdict() if hasattr(r, "_asdict") else None, Point._fields

def v_dc():
    import dataclasses
    from picosvg.svg_types import SVGPath
    p = SVGPath(d="M0,0 L1,1", fill="red")
    q = dataclasses.replace(p, fill="blue")
    return p.fill, q.fill, q.d, [f.name for f in dataclasses.fields(p)][:3], dataclasses.asdict(q)["fill"]

def v_getset():
    from picosvg.svg_types import SVGPath
    p = SVGPath(d="M0,0")
    setattr(p, "fill", "green")
    return getattr(p, "fill"), getattr(p, "nope", 3), type(p).__name__, p.__class__.__name__, isinstance(p, SVGPath)

def v_iter():
    xs = [3, 1, 2]
    it = iter(xs)
    first = next(it)
    rest = list(it)
    pairs = list(zip(*[(1, "a"), (2, "b")]))
    first_even = next(filter(lambda v: v % 2 == 0, xs), None)
    idx = next((i for i, v in enumerate(xs) if v == 2), -1)
    found = any((hit := v) > 2 for v in xs)
    return first, rest, pairs, first_even, idx, found, hit, ",".join(map(str, xs)), list(reversed(range(3))), list(range(10))[2:8:3], [*range(3)], dict(enumerate("ab")), sum([[1], [2]], [])

def v_collections():
    import collections
    c = collections.Counter("aab")
    od = collections.OrderedDict([("x", 1), ("y", 2)])
    dd = collections.defaultdict(list)
    dd["k"].append(1)
    dq = collections.deque([1, 2, 3])
    dq.appendleft(0); dq.append(4); l = dq.popleft(); r = dq.pop()
    NT = collections.namedtuple("NT", "a b")
    return sorted(c.items()), list(od.items()), dict(dd), list(dq), l, r, NT(1, 2).b

def v_tryreturn(x):
    log = []
    def f():
        try:
            if x:
                return "early"
            log.append("body")
        finally:
            log.append("cleanup")
        return "late"
    r = f()
    return r, log

def v_slices():
    xs = list(range(6))
    xs[1:3] = ["a", "b", "c"]
    del xs[0]
    ys = xs[:]
    ys[-1:] = []
    t = (1, 2, 3)
    a, (b, c), *d = 1, (2, 3), 4, 5
    return xs, ys, t[1:], t + (4,), a, b, c, d, xs[::-1][:2]

def v_strnum():
    return int("12") + int(3.9), float("1e-3"), "%g" % 0.5, f"{3.14159:.2f}", f"{7:03d}", str(10 ** 2), "5".zfill(3), "{:>4}".format("x"), round(0.125, 2), 1e-7 < 1e-6, 3.0.is_integer(), (2.5).is_integer()
'''
rel=f"{PKG_REL}/svg_meta.py"
r=Repo(base.root,{rel: base['svg_meta'].src+extra})
tests={'v_functools':[],'v_dispatch':['b'],'v_nt':[],'v_dc':[],'v_getset':[],'v_iter':[],'v_collections':[],'v_tryreturn':[True],'v_slices':[],'v_strnum':[]}
sys.path.insert(0,'/repo/src')
ns={}
try:
    exec(extra,ns)
except Exception as e: print('exec',e)
def norm(v):
    from fractions import Fraction
    if isinstance(v,(tuple,list)): return type(v)(norm(x) for x in v)
    if isinstance(v,dict): return {k:norm(x) for k,x in v.items()}
    if isinstance(v,(int,float,Fraction)) and not isinstance(v,bool):
        try: return float(v)
        except Exception: return v
    return v
for name,args in tests.items():
    try: want=ns[name](*args)
    except Exception as e: want='PY-EXC '+repr(e)[:80]
    try:
        outs=explore(r,closure_of(r,'svg_meta',name),list(args),max_paths=8)
        o=outs[0]
        got='UNDECIDED '+o.undecided if o.undecided else ('RAISED '+str(o.raised) if o.raised else o.value)
    except Exception as e:
        got='EXC '+type(e).__name__+' '+str(e)[:200]
    if isinstance(got,str) and got[:5] in('UNDEC','EXC N','EXC T','EXC A','EXC K','EXC V','EXC I','RAISE'):
        print(name, got[:300], '| want', repr(want)[:100])
    else:
        g,w=norm(got),norm(want)
        if g!=w:
            if isinstance(g,tuple) and isinstance(w,tuple) and len(g)==len(w):
                for i,(a,b) in enumerate(zip(g,w)):
                    if a!=b: print(name,'DIFF at',i,'got',repr(a)[:120],'want',repr(b)[:120])
            else: print(name,'DIFF',repr(g)[:300],'WANT',repr(w)[:300])
        else: print(name,'ok')

import sys; sys.path.insert(0,'/verif')
from sa.core import Repo, PKG_REL
from sa.sym import explore, closure_of
base=Repo()
extra='''

def t_walrus(xs):
    if (n := len(xs)) > 2:
        return n
    return 0

def t_tryfinally(x):
    out = []
    try:
        out.append(1)
        if x:
            raise ValueError("boom")
    except ValueError as e:
        out.append(str(e))
    else:
        out.append("else")
    finally:
        out.append("fin")
    return out

def t_with():
    import contextlib
    with contextlib.suppress(KeyError):
        {}["a"]
    return 1

def t_yieldfrom(xs):
    def inner():
        yield from xs
        yield 99
    return list(inner())

def t_comps(xs):
    return {x: x * 2 for x in xs}, {x for x in xs}, [y for x in xs for y in (x, x)], sorted(xs, key=lambda v: -v), list(zip(xs, xs[1:])), list(enumerate(xs, 1))

def t_star(*args, **kw):
    def f(a, b=2, *rest, c=3, **more):
        return (a, b, rest, c, more)
    return f(*args, **kw)

def t_str(s):
    return s.upper(), s.split(","), s.strip().startswith("a"), ",".join(reversed(s.split(","))), s.replace("a", "b"), f"{s!r:>8}", "%s-%d" % (s, 3), s[::-1], s.partition(",")

def t_match(x):
    match x:
        case 1:
            return "one"
        case _:
            return "other"

def t_cls():
    class A:
        k = 1
        def __init__(self, v):
            self.v = v
        @property
        def dbl(self):
            return self.v * 2
        @staticmethod
        def s(x):
            return x + 1
        @classmethod
        def c(cls, x):
            return cls(x)
        def __eq__(self, o):
            return self.v == o.v
    return A(2).dbl, A.s(1), A.c(5).v, A(1) == A(1), A.k

def t_misc(xs):
    a, *b = xs
    c = xs[-1] if xs else None
    d = dict(a=1, **{"b": 2})
    d.setdefault("z", []).append(1)
    e = any(x > 1 for x in xs) and all(x for x in xs)
    g = max(xs), min(xs), sum(xs), abs(-1), divmod(7, 2), round(2.567, 2), int("3"), float("1.5"), isinstance(a, int)
    while xs:
        xs = xs[1:]
        if len(xs) == 1:
            break
    else:
        pass
    assert a == 1, "msg"
    del d["a"]
    return a, b, c, d, e, g, xs

def t_global():
    global _COUNTER
    try:
        _COUNTER += 1
    except NameError:
        _COUNTER = 1
    return _COUNTER

def t_nonlocal():
    n = 0
    def inc():
        nonlocal n
        n += 1
        return n
    inc(); inc()
    return n

def t_dataclass():
    import dataclasses
    @dataclasses.dataclass(frozen=True)
    class P:
        x: float = 0
        y: float = 0
        def moved(self, dx):
            return dataclasses.replace(self, x=self.x + dx)
    p = P(1, 2).moved(3)
    return p.x, p.y, dataclasses.astuple(p), dataclasses.asdict(p), [f.name for f in dataclasses.fields(p)]

def t_itertools(xs):
    import itertools, functools, operator
    return list(itertools.chain(xs, xs)), list(itertools.product(xs, repeat=2))[:2], functools.reduce(operator.add, xs, 0), list(itertools.zip_longest(xs, xs[1:])), list(itertools.accumulate(xs)), [list(g) for k, g in itertools.groupby(xs, key=lambda v: v % 2)]

def t_bytes():
    return "abc".encode("utf-8").decode("utf-8"), bytes([65]).decode(), len(b"ab")

def t_exc_chain():
    try:
        try:
            raise KeyError("k")
        except KeyError as e:
            raise ValueError("v") from e
    except ValueError as e2:
        return type(e2).__name__, str(e2)
'''
rel=f"{PKG_REL}/svg_meta.py"
r=Repo(base.root,{rel: base['svg_meta'].src+extra})
tests={'t_walrus':[[1,2,3]],'t_tryfinally':[True],'t_with':[],'t_yieldfrom':[[1,2]],'t_comps':[[3,1,2]],'t_star':[1,2,3],'t_str':["a,b"],'t_match':[1],'t_cls':[],'t_misc':[[1,2,3]],'t_global':[],'t_nonlocal':[],'t_dataclass':[],'t_itertools':[[1,2,3]],'t_bytes':[],'t_exc_chain':[]}
for name,args in tests.items():
    try:
        outs=explore(r,closure_of(r,'svg_meta',name),list(args),max_paths=8)
        for o in outs[:1]:
            print(name, 'UNDECIDED '+o.undecided if o.undecided else ('RAISED '+str(o.raised) if o.raised else repr(o.value)[:200]))
    except Exception as e:
        print(name,'EXC',type(e).__name__,str(e)[:200])

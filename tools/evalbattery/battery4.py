import sys; sys.path.insert(0,'/verif')
from sa.core import Repo, PKG_REL
from sa.sym import explore, closure_of
base=Repo()
extra='''

def w_rect():
    import dataclasses, copy
    r = SVGRect(x=1, y=2, width=10, height=4, rx=7)
    r2 = dataclasses.replace(r, width=2)
    r3 = copy.copy(r)
    r3.fill = "blue"
    r4 = copy.deepcopy(r)
    return (r.rx, r.ry), (r2.rx, r2.ry), r.fill, r3.fill, r == r4, r == r3, r is r, r != r4

def w_nt():
    p = Point(1, 2)
    q = Point(1, 2)
    v = Vector(3, 4)
    return p == q, p == (1, 2), p + v if hasattr(p, "__add__") else None, tuple(p), p[0], len(p), list(p), p._replace(y=5), max(p), p < Point(1, 3), hash(p) == hash(q), {p: 1}[q]

def w_aff():
    a = Affine2D.identity().translate(1, 2)
    b = Affine2D(1, 0, 0, 1, 1, 2)
    c = a.product(Affine2D.identity().scale(2)) if hasattr(a, "product") else a @ Affine2D.identity().scale(2)
    return a == b, tuple(a), a.map_point((1, 1)), c, Affine2D.compose_ltr((a, a)), a.inverse(), a.determinant(), Affine2D.fromstring("translate(1 2) scale(2)"), a.round(1), a.almost_equals(b)

def w_path():
    p = SVGPath(d="M1,1 L2,2 l1,0 z")
    cmds = list(p)
    q = p.absolute()
    return cmds, q.d, p.d, SVGPath.from_commands(cmds).d, p.move(1, 1).d, p.bounding_box() if False else None, len(list(p.explicit_lines()))
'''
rel=f"{PKG_REL}/svg_types.py"
r=Repo(base.root,{rel: base['svg_types'].src+"\nfrom picosvg.geometric_types import Point, Vector\nfrom picosvg.svg_transform import Affine2D\n"+extra})
sys.path.insert(0,'/repo/src')
ns={}
import subprocess, json
# reference under /venv (has lxml/skia)
code = "import sys; sys.path.insert(0,'/repo/src')\nfrom picosvg.svg_types import *\nfrom picosvg.geometric_types import Point, Vector\nfrom picosvg.svg_transform import Affine2D\nimport dataclasses, copy\n"+extra+"\nfor n in ('w_rect','w_nt','w_aff','w_path'):\n    try: print(n, repr(globals()[n]()))\n    except Exception as e: print(n,'PY-EXC',repr(e))\n"
out=subprocess.run(['/venv/bin/python','-c',code],capture_output=True,text=True)
print(out.stdout[:3000]); print(out.stderr[-500:])
for name in ('w_rect','w_nt','w_aff','w_path'):
    try:
        outs=explore(r,closure_of(r,'svg_types',name),[],max_paths=16)
        o=outs[0]
        print('SA',name, ('UNDECIDED '+o.undecided) if o.undecided else ('RAISED '+str(o.raised)+' '+o.raise_msg) if o.raised else repr(o.value)[:1500])
    except Exception as e:
        print('SA',name,'EXC',type(e).__name__,str(e)[:300])

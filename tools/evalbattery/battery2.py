import sys; sys.path.insert(0,'/verif')
from sa.core import Repo, PKG_REL
from sa.sym import explore, closure_of
base=Repo()
extra='''

def u_dict():
    d = {"a": 1, "b": 2}
    d.update(c=3)
    d.update({"e": 5})
    x = d.pop("a")
    y = d.pop("zz", None)
    d.setdefault("q", 0)
    ks = list(d.keys()); vs = list(d.values()); its = sorted(d.items())
    return x, y, ks, vs, its, "b" in d, d.get("nope", 7), len(d), {**d, "n": 1}, dict(zip("ab", (1, 2))), dict.fromkeys(["x", "y"], 0)

def u_list():
    l = [3, 1, 2]
    l.insert(0, 9); l.extend([4, 5]); p = l.pop(); q = l.pop(0)
    i = l.index(1); l.remove(2); l.sort(); l2 = l[:]; l2.reverse(); l.sort(key=lambda v: -v)
    l3 = l + [0] * 2
    return l, l2, p, q, i, l3, l3[1:-1], l3[::2], l.count(3), [*l, *l2], max(l, default=0), min([], default=None)

def u_str():
    s = "  Hello, World  "
    return (s.strip().lower(), s.lstrip(), s.rstrip(), s.find("W"), "12".isdigit(), "{} and {x}".format(1, x=2), "a-b".split("-", 1), s.strip().endswith(("d", "x")),
            "abc"[1], "abc"[-1:], "x" * 3, "a" in "cat", repr("q"), "a,b,,c".split(","), " ".join(str(i) for i in range(3)), "A".isupper(), "ab".capitalize(), "a\\nb".splitlines(), "abc".index("c"), str(1.5), "%.2f" % 1.239, "%5s|%-5s|" % ("a", "b"), "1e3".lower(), "x=%r" % ("y",))

def u_sets():
    a = {1, 2, 3}; b = {3, 4}
    return sorted(a | b), sorted(a & b), sorted(a - b), sorted(a ^ b), a <= {1, 2, 3, 4}, a.isdisjoint({9}), len(a), 2 in a, sorted(a.union(b)), frozenset(a) == frozenset([3, 2, 1])

def u_attrs():
    class_like = SimpleNS()
    return 1

def u_getattr(o):
    return getattr(o, "real", None), hasattr(o, "nope"), callable(len), isinstance(o, (int, str)), type(o) is int, type(o) == int

def u_closures():
    fs = [lambda i=i: i * 2 for i in range(3)]
    gs = []
    for j in range(3):
        def g(k=j):
            return k + 1
        gs.append(g)
    acc = []
    def add(x, bucket=acc):
        bucket.append(x)
        return bucket
    add(1); add(2)
    return [f() for f in fs], [g() for g in gs], acc

def u_gen():
    def gen(n):
        i = 0
        while True:
            if i >= n:
                return
            yield i
            i += 1
    out = []
    for v in gen(10):
        if v > 2:
            break
        out.append(v)
    return out, list(map(lambda v: v + 1, out)), list(filter(None, [0, 1, 2])), sum(x * x for x in out), next(iter(out)), next((x for x in out if x > 5), "none")

def u_cmp(x):
    return 0 < x < 10, x == 5 or x == 6, not x, x if x else -1, (x, 1) < (x, 2), [1, 2] == [1, 2], None is None, x is not None, 1 if x > 3 else 2 if x > 1 else 3

def u_math():
    import math
    return math.floor(2.5), math.ceil(2.1), math.sqrt(16), math.isclose(1.0, 1.0 + 1e-12), math.pi > 3, math.copysign(1, -2), math.hypot(3, 4), int(2.9), round(2.5), round(3.5), abs(-2.5), 7 // 2, -7 // 2, 7 % 3, -7 % 3, 2 ** 10, 2 ** -1, 1 / 4, float("inf") > 1, math.isfinite(1.0), math.degrees(math.pi), math.radians(180)

def u_exc():
    out = []
    for v in ("1", "x", None):
        try:
            out.append(int(v))
        except ValueError:
            out.append("VE")
        except TypeError:
            out.append("TE")
    try:
        [][1]
    except IndexError:
        out.append("IE")
    try:
        {}["k"]
    except LookupError as e:
        out.append(type(e).__name__)
    try:
        1 / 0
    except ArithmeticError:
        out.append("ZD")
    try:
        None.foo
    except AttributeError:
        out.append("AE")
    try:
        float("abc")
    except ValueError:
        out.append("VE2")
    try:
        a, b = [1]
    except ValueError:
        out.append("unpack")
    return out
'''
rel=f"{PKG_REL}/svg_meta.py"
r=Repo(base.root,{rel: base['svg_meta'].src+extra})
tests={'u_dict':[],'u_list':[],'u_str':[],'u_sets':[],'u_getattr':[5],'u_closures':[],'u_gen':[],'u_cmp':[5],'u_math':[],'u_exc':[]}
import math
exp={}
ns={}
exec(extra.replace("class_like = SimpleNS()",""),ns)
for name,args in tests.items():
    try:
        want=ns[name](*args)
    except Exception as e:
        want='PY-EXC '+repr(e)
    try:
        outs=explore(r,closure_of(r,'svg_meta',name),list(args),max_paths=8)
        o=outs[0]
        got='UNDECIDED '+o.undecided if o.undecided else ('RAISED '+str(o.raised) if o.raised else o.value)
    except Exception as e:
        got='EXC '+type(e).__name__+' '+str(e)[:200]
    def norm(v):
        from fractions import Fraction
        if isinstance(v,(tuple,list)): return type(v)(norm(x) for x in v)
        if isinstance(v,dict): return {k:norm(x) for k,x in v.items()}
        if isinstance(v,(int,float,Fraction)) and not isinstance(v,bool):
            try: return float(v)
            except Exception: return v
        return v
    if isinstance(got,str) and (got.startswith('UNDEC') or got.startswith('EXC') or got.startswith('RAISED')):
        print(name, got[:300])
    else:
        g,w=norm(got),norm(want)
        if g!=w:
            if isinstance(g,tuple) and isinstance(w,tuple) and len(g)==len(w):
                for i,(a,b) in enumerate(zip(g,w)):
                    if a!=b: print(name,'DIFF at',i,'got',repr(a)[:120],'want',repr(b)[:120])
            else: print(name,'DIFF',repr(g)[:300],'WANT',repr(w)[:300])
        else: print(name,'ok')

"""Context managers as values, regex objects at module level, numeric tests spelled several ways (evaluator vs CPython)."""
import sys; sys.path.insert(0,'/verif')
from sa.core import Repo, PKG_REL
from sa.sym import explore, closure_of
base=Repo()
extra='''
import contextlib
import re as _re5
_RX5 = _re5.compile(r"(?i)(ab|cd)\\s*\\(([^)]*)\\)")
_SEP5 = _re5.compile(r"\\s*[,\\s]\\s*")

def v_ctx(x):
    src = contextlib.nullcontext(x) if x else contextlib.nullcontext([9])
    with src as f:
        y = f[0]
    out = []
    guard = contextlib.suppress(KeyError, IndexError)
    with guard:
        out.append(1)
        out.append({}["a"])
        out.append(2)
    with contextlib.suppress(IndexError):
        out.append([][3])
    return y, out

def v_ctx2():
    out = []
    try:
        with contextlib.suppress(KeyError):
            out.append([][3])
    except IndexError:
        out.append("ie")
    return out

def v_rx():
    r = []
    for op, raw in _RX5.findall("ab(1, 2) CD( 3 4 )x(5)"):
        first, *rest = map(float, _SEP5.split(raw.strip()))
        r.append((op.lower(), first, rest))
    return r

def v_none():
    try:
        a, b = None
    except TypeError:
        return "te"
    return "no"
'''
rel=f"{PKG_REL}/svg_meta.py"
r=Repo(base.root,{rel: base['svg_meta'].src+extra})
import subprocess
code = extra.replace('\\\\','\\')+"\nfor n,a in (('v_ctx',([4],)),('v_ctx',([],)),('v_ctx2',()),('v_rx',()),('v_none',())):\n    try: print(n, repr(globals()[n](*a)))\n    except Exception as e: print(n,'PY-EXC',repr(e))\n"
out=subprocess.run(['/venv/bin/python','-c',code],capture_output=True,text=True)
print(out.stdout[:3000]); print(out.stderr[-800:])
for name,a in (('v_ctx',([4],)),('v_ctx',([],)),('v_ctx2',()),('v_rx',()),('v_none',())):
    try:
        outs=explore(r,closure_of(r,'svg_meta',name),list(a),max_paths=16)
        o=outs[0]
        print('SA',name, ('UNDECIDED '+o.undecided) if o.undecided else ('RAISED '+str(o.raised)+' '+o.raise_msg) if o.raised else repr(o.value)[:1500])
    except Exception as e:
        print('SA',name,'EXC',type(e).__name__,str(e)[:300])

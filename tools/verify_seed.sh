#!/bin/sh
# verify_seed.sh <dir with patch.diff demo.py> : confirms in a scratch worktree that the demo passes on the
# clean tree, fails with the patch, and that the pinned suite is unchanged with the patch. Removes the worktree.
D=$1
W=$(mktemp -d /tmp/vs-XXXXXX); rmdir "$W"
git -C /repo worktree add --detach -q "$W" HEAD || exit 2
( cd "$W" && PYTHONPATH="$W/src" timeout 300 /venv/bin/python "$D/demo.py" >/dev/null 2>&1 ); R0=$?
( cd "$W" && git apply "$D/patch.diff" ) || { echo "PATCH-DOES-NOT-APPLY"; git -C /repo worktree remove --force "$W"; exit 2; }
( cd "$W" && PYTHONPATH="$W/src" timeout 300 /venv/bin/python "$D/demo.py" >/dev/null 2>&1 ); R1=$?
T=$( cd "$W" && PYTHONPATH="$W/src" /verif/tools/baseline_check.sh "$W" 2>&1 | tail -1 )
git -C /repo worktree remove --force "$W"
echo "demo_clean_rc=$R0 demo_patched_rc=$R1 suite=$T"
[ "$R0" = 0 ] && [ "$R1" != 0 ] && [ "$T" = BASELINE-OK ]

#!/bin/sh
# Runs the pinned baseline suite in /repo (or $1) and prints the pass/fail summary line.
R=${1:-/repo}
cd "$R" && /venv/bin/python -m pytest -q -p no:cacheprovider --timeout=900 --continue-on-collection-errors -x -q 2>&1 | tail -n 8

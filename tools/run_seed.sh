#!/bin/sh
# run_seed.sh <patch.diff> <CNN> [CNN...] : applies the patch to /repo, runs the quick checks, reverts /repo.
P=$1; shift
[ -z "$(git -C /repo status --porcelain)" ] || { echo "/repo not clean"; exit 2; }
git -C /repo apply "$P" || { echo "patch does not apply"; exit 2; }
for c in "$@"; do /verif/check "$c" 2>&1 | grep -E 'VIOLATION|ANALYSIS-ERROR|^C[0-9]+: tier|\[R-' | cut -c1-260; done
git -C /repo checkout -- . ; git -C /repo status --porcelain

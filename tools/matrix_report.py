#!/usr/bin/env python3
"""Turns the JSON written by tools/rulematrix.py into /verif/seeded/MATRIX.md and /verif/refactorings/MATRIX.md.

usage: matrix_report.py <rulematrix.json> [<more.json> ...]   (later files override earlier entries of the same patch)"""
import json
import os
import sys

V = os.path.dirname(os.path.dirname(os.path.abspath(__file__)))


def main():
    res = {}
    for p in sys.argv[1:]:
        for r in json.load(open(p)):
            res[(r["kind"], r["name"])] = r
    seeds = [r for (k, _), r in sorted(res.items()) if k == "seed"]
    refs = [r for (k, _), r in sorted(res.items()) if k == "refac"]
    lines = ["# Seeded changes vs checks", "",
             "Each row: a property-breaking change written by an independent sub-agent for the named property (it compiles, the pinned suite still passes, a demo on the",
             "real code shows the break). Produced by `tools/rulematrix.py` (every rule of every check evaluated on an in-memory overlay of the patch).",
             "`own` = rules of that property's check that report a violation beyond the known findings; `also` = other checks that report one;",
             "`analysis errors` = checks that end with exit 2 (the evaluator could not interpret the changed code): detected as broken analysis, not as a violation.", "",
             "| seed | own check | rules | also caught by | analysis errors |", "|---|---|---|---|---|"]
    caught = 0
    for r in seeds:
        own = r["name"].split("-")[0]
        owns = sorted({rule for pid, rule, *_ in r["fails"] if pid == own})
        others = sorted({pid for pid, *_ in r["fails"] if pid != own})
        errs = sorted({e[0] for e in r["errors"]})
        caught += bool(owns)
        lines.append(f"| {r['name']} | {'CAUGHT' if owns else ('exit 2' if own in errs else 'missed')} | {', '.join(owns)} | {', '.join(others)} | {', '.join(errs)} |")
    lines += ["", f"Caught by the property's own check: {caught} of {len(seeds)}; by some check: {sum(1 for r in seeds if r['fails'])} of {len(seeds)}."]
    open(os.path.join(V, "seeded", "MATRIX.md"), "w").write("\n".join(lines) + "\n")
    lines = ["# Behaviour-preserving refactorings vs checks", "",
             "Each row: a refactoring written by an independent sub-agent that keeps the behaviour (pinned suite unchanged). Any report is a false alarm.", "",
             "| refactoring | violations reported | analysis errors |", "|---|---|---|"]
    for r in refs:
        f = sorted({f"{pid} {rule}" for pid, rule, *_ in r["fails"]})
        errs = sorted({e[0] for e in r["errors"]})
        lines.append(f"| {r['name']} | {', '.join(f) or '-'} | {', '.join(errs) or '-'} |")
    lines += ["", f"Refactorings with a false violation: {sum(1 for r in refs if r['fails'])} of {len(refs)}; with an analysis error: {sum(1 for r in refs if r['errors'])} of {len(refs)}."]
    open(os.path.join(V, "refactorings", "MATRIX.md"), "w").write("\n".join(lines) + "\n")
    print(f"seeds own-caught {caught}/{len(seeds)}, any {sum(1 for r in seeds if r['fails'])}/{len(seeds)}; refactorings alarmed {sum(1 for r in refs if r['fails'])}/{len(refs)}, errors {sum(1 for r in refs if r['errors'])}/{len(refs)}")
    for r in seeds:
        own = r["name"].split("-")[0]
        if not any(pid == own for pid, *_ in r["fails"]):
            print("  not caught by own check:", r["name"], "| others:", sorted({pid for pid, *_ in r["fails"]}), "| errors:", [(e[0], e[1][:100]) for e in r["errors"] if e[0] == own])
    for r in refs:
        if r["fails"] or r["errors"]:
            print("  refactoring alarm:", r["name"], sorted({(pid, rule) for pid, rule, *_ in r["fails"]}), [(e[0], e[1][:140]) for e in r["errors"]])


if __name__ == "__main__":
    main()

#!/bin/sh
# import_seed.sh <src dir> <name> <round> : copies a seed written by a sub-agent to seeded/<name>, re-verifies it with
# verify_seed.sh (demo passes clean, fails patched, pinned suite unchanged) and records the result in meta.json.
S=$1; N=$2; R=$3
D=/verif/seeded/$N
mkdir -p "$D" && cp "$S"/patch.diff "$S"/demo.py "$S"/notes.md "$D"/ || exit 2
V=$(/verif/tools/verify_seed.sh "$D"); RC=$?
OK=false; [ $RC = 0 ] && OK=true
P=$(echo "$N" | cut -d- -f1)
python3 - "$D" "$P" "$R" "$V" "$OK" <<'PY'
import json, sys, subprocess
d, p, r, v, ok = sys.argv[1:]
title = open(d + "/notes.md").readline().lstrip("# ").strip()
head = subprocess.run(["git", "-C", "/repo", "rev-parse", "--short", "HEAD"], capture_output=True, text=True).stdout.strip()
json.dump({"property": p, "round": int(r), "title": title,
           "needs_to_manifest": "see notes.md (section on the input / sequence that manifests it)",
           "verified": f"{v} (tools/verify_seed.sh on /repo {head})", "verified_ok": ok == "true"},
          open(d + "/meta.json", "w"), indent=1)
PY
echo "$N: $V"
[ $RC = 0 ]

#!/usr/bin/env python3
"""Regenerates /verif/MANIFEST.json from the table below (one entry per property with a rule module)."""
import json
import os
import subprocess

V = os.path.dirname(os.path.dirname(os.path.abspath(__file__)))

CHECKS = {
    "C10": dict(
        technique="regex automata (Glushkov/DFA product, inclusion witnesses, tokenizer model vs maximal munch) + symbolic case split per command letter + exception-flow lint",
        text="Static decision of the lexical and tabular clauses: L(_FLOAT_RE) vs the transcribed SVG number grammar with the tokenizer "
             "modelled as iterated longest prefix (every conforming string up to the bound is tokenised as maximal munch or rejected), "
             "match-check-slice discipline of every yield in _parse_args, arity/implicit-repeat/arc typing tables, only ValueError raised in "
             "the parse closure, printer language included in parser language. Holds for all inputs because it is a statement about the "
             "automata and tables, not about sampled strings.",
        note="Not decided: numeric equality float(str(x)) == x (CPython guarantee, trusted), non-str input. Trusted: CPython ast/re._parser, "
             "transcribed SVG 1.1 BNF and float repr grammar in sa/spec.py.",
        design="DESIGN.md section 3 / C10",
    ),
}

CHECKS["C09"] = dict(
    technique="abstract interpretation of the rewrite callbacks over a term/rational-function domain, exhaustive case split over letters, ordered pairs (and triples) of the 20 path commands, compared with a transcribed reference interpreter of SVG 1.1 path semantics",
    text="For every rewrite (absolute, absolute_moveto, relative, explicit_lines, expand_shorthand, move, arcs_to_cubics, subpaths, as_cmd_seq, "
         "round_floats, the seven as_path builders) the source is specialised per command letter / ordered pair (quick) / triple (thorough) with "
         "symbolic arguments and the emitted commands are proved equal, as rational functions, to the reference SVG semantics and to the promised "
         "target form. This quantifies over all letter contexts and all numbers at once, which example strings cannot.",
    note="Not decided: the distance bound for arcs (C12), the 1e-9 near-start snapping branch (structure only), half-ulp rounding of round(). "
         "Floating-point rounding is ignored (exact rational arithmetic). Trusted: sa/pathsem.py reference interpreter transcribed from SVG 1.1 8.3, sa/spec.py tables.",
    design="DESIGN.md section 3 / C09",
)

CHECKS["C11"] = dict(
    technique="polynomial/rational normal forms of the Affine2D source expressions vs SVG 1.1 matrices; symbolic interpretation of parse_svg_transform over all operators/arities/ordered pairs; regex automata for the transform grammar; case split of rect_to_rect over 30 preserveAspectRatio forms",
    text="The algebraic laws (product, point mapping, inverse on both sides, every elementary operation = self @ M_op, left-to-right composition, "
         "decompositions recomposing) are established as identities of rational functions on the source expressions, i.e. for all 6-tuples of "
         "reals at once; the parser is interpreted symbolically for every operator, arity, letter case and ordered pair of operators; printer "
         "templates are shown to re-parse to the same six numbers; rect_to_rect is compared with the specification for all alignment/meet/slice cases.",
    note="Not decided: floating-point error, is_degenerate's epsilon policy. Trig functions are opaque atoms (parity, cos^2+sin^2=1). Trusted: matrices of SVG 1.1 7.6 in rules/c11.py.",
    design="DESIGN.md section 3 / C11",
)

CHECKS["C15"] = dict(
    technique="typestate dataflow analysis (cache states N/P/D + obligation bit) over every public method of SVG from every entry state, context-sensitive inlining of self-calls, def-use provenance for cache writes; structural return discipline for inplace/copy branches",
    text="A history property decided for all histories at once: the lazily flushed shape cache is a three-state protocol, every public operation is "
         "analysed from all three states, so any sequence of operations keeps tree and cache consistent iff no rule fires (no tree access in the "
         "dirty state, no reset of a dirty cache, no exit with a cache shadowing a modified tree, primitives honour their contracts, in-place "
         "returns self, copy returns the processed clone with every parameter forwarded).",
    note="Not decided: value-level fidelity of to_element(from_element(x)); interleaving operations inside a consumer's loop over a traversal generator. "
         "Frozen exemptions: xpath, xpath_one, resolve_url are pure queries. Trusted: lxml mutator name list in sa/typestate.py.",
    design="DESIGN.md section 3 / C15",
)

CHECKS["C16"] = dict(
    technique="whole-package effect and taint lints over the AST: forbidden-source calls (with positive control), set-typed expression inference and order-sensitive sink classification, module/class-level state writes, memoisation discipline",
    text="Determinism is decided as absence of sources: no environment/time/identity/randomness API, no order-sensitive use of a hash-ordered "
         "value except three frozen instances whose harmlessness is re-derived structurally on every run, no state surviving from one conversion "
         "to the next (module containers, class attributes, mutable defaults, instance-keyed memo without clear-before-use), ids from a lowest-free "
         "search. A dependence on hash seed or conversion order needs one of these constructs, so their absence covers every document and every "
         "batch order at once.",
    note="Trusted: lxml and skia-pathops are deterministic functions of their inputs; dict/attribute iteration is insertion order. Not decided: byte "
         "equality inside those libraries.",
    design="DESIGN.md section 3 / C16",
)

CHECKS["C17"] = dict(
    technique="loop and recursion inventory over the call graph with structural termination arguments (worklist, parent walk, advancing index with non-nullable regex automata, structural descent, flag-bounded self-call, guarded reference walk); who-may-call lint for XML/file/network entry points",
    text="Non-termination needs a loop or a call cycle; every one of them in the package is enumerated and must match a termination argument from a "
         "closed list whose side conditions are checked on the syntax tree (pops and pushes of worklists, strict index progress on every path, "
         "non-nullability of the token regexes, a visited set or a dominating cycle pre-check for every iterative reference walk). The single XML "
         "entry point is hardened (resolve_entities=False) and nothing else parses XML, opens files or reaches the network; the gate raises.",
    note="Not decided: running time proportional to the expanded document, memory growth. Recursive reference walks without cycle detection "
         "(_resolve_clip_path, _apply_gradient_template) end in RecursionError - an exception, which the property allows (notes in the evidence).",
    design="DESIGN.md section 3 / C17",
)

CHECKS["C01"] = dict(
    technique="CFG dominance / post-dominance queries over the conversion pipeline with helper inlining, regex automata inclusion of the gate's allowlist in the README grammar, symbolic target-form checks of the path rewrites, def-use checks of attribute clean-up sites, who-may-create table for elements",
    text="Necessary structural conditions of the output grammar on every path: the validating gate post-dominates the in-place pipeline and raises, "
         "its allowlist language is included in the documented grammar, options flow by name from CLI to gate, every precedence the grammar needs "
         "between stages holds by dominance, nothing changes numbers after rounding, every number is rounded unconditionally, rewrites reach the "
         "restricted command set, kept groups carry only the clamped opacity the decision used, clean-up sites of _simplify are present, and no new "
         "element creation site exists.",
    note="Known finding F5 (remove_unpainted_shapes after the last group pruning) is listed in known_findings.json. Not decided: finiteness of "
         "Skia output, survival of evenodd on paths no path operation touched, lxml serialisation.",
    design="DESIGN.md section 3 / C01",
)

CHECKS["C02"] = dict(
    technique="sibling call-site analysis of affine composition with def-use provenance of operands, polynomial identities of the affine algebra (shared with C11), structural must-apply / document-order / viewport checks",
    text="Rendering equality is geometric and not decided. Decided necessary conditions, each of which breaks the rendering of some document when "
         "violated: operand order at every composition site of the flattening code (own transform before context, use offset before use transform, "
         "viewport mapping before transform attribute, child before parent), the algebra those sites rely on, every emitted piece mapped through the "
         "context transform, document order of replacements / swaps / stroke split, nested-svg viewport parameters with the viewBox extent passed "
         "down, child contexts derived from parent contexts.",
    note="Not applicable to this family: point-wise equality of the paint stack (needs a renderer and sample points), Skia's transform arithmetic, shape geometry (C09).",
    design="DESIGN.md section 3 / C02",
)
CHECKS["C03"] = dict(
    technique="sibling call-site analysis (fill-rule vs clip-rule provenance, inherited attributes at from_element sites), statement-order checks of clip region construction / stacking / application, plus the C13 boolean-operation plumbing rules",
    text="Exactness of the clipped region is Skia's. Decided necessary conditions: positional pairing of the clipped shape with fill_rule and of clip "
         "operands with clip_rule, clip region = union of children (use resolved first) intersected with the clipPath's own clip, transformed "
         "child > clipPath > referencing CTM, a child's clips extend the parent's and are resolved unconditionally with the child's CTM, every piece "
         "is clipped after stroke and transform, and every rendered shape is read with inherited attributes (known finding F10 at _resolve_clip_path).",
    note="Not applicable: set-theoretic equality at sample points. Known finding F10 in known_findings.json.",
    design="DESIGN.md section 3 / C03",
)
CHECKS["C13"] = dict(
    technique="table comparison of the Skia mapping tables, def-use / path checks of _do_pathop (operand-rule pairing, left fold, final simplify on every value return), exact-shape check of the operation wrappers, exception-handler lint over the call-graph closure",
    text="Skia computes the regions; the check decides that Skia is asked the right question on every path: same-named fill types/builders/verbs, "
         "operand i with rule i, left fold with fix_winding, a final simplify(fix_winding=True) before the only value return, wrappers that are exactly "
         "the fold (no shortcut returning an operand), and no handler that could turn a Skia failure into a wrong path.",
    note="Not applicable: that the returned interior equals the set combination at sample points (Skia internals).",
    design="DESIGN.md section 3 / C13",
)

CHECKS["C04"] = dict(
    technique="abstract interpretation of SVG._stroke and stroke_commands over symbolic paints/opacities/dash arrays, statement-order check of the stroke step in _simplify, table comparison of cap/join maps, argument-position checks against callee signatures",
    text="The outline geometry is Skia's. Decided: the stroke is computed on the untransformed path before transform and clip, the fill/stroke split "
         "moves opacity products, paints, rules, ids and geometry exactly as specified on every path (symbolic values, so for all shapes), dash arrays "
         "are parsed per SVG with odd-length repetition, and each stroke parameter reaches Skia under its own name, unmodified, in signature order.",
    note="Not applicable: the covered region near caps/joins/dash ends, Skia's 0.25-unit resolution. Trusted: skia-pathops Path.stroke signature.",
    design="DESIGN.md section 3 / C04",
)

CHECKS["C05"] = dict(
    technique="abstract interpretation of every inheritance handler on the four parent/child presence combinations (kinds derived from bodies, compared with the SVG property table), table comparison of defaults, structural predicates for group retention and style precedence, call-site agreement for opacity pushing, symbolic interpretation of normalize_opacity",
    text="Composited colour is not decided. Decided: which ancestor wins and how values combine for every property (handler kinds derived by "
         "interpreting the handler bodies, so a renamed or rewritten handler is judged by what it does), defaults equal SVG initial values, the "
         "keep-or-flatten predicate and its child count, a dissolved group's opacity reaching each child exactly once at every call site, style "
         "declarations overriding attributes, opacity folding of the absent paint, and the own-before-inherited order of the traversal context.",
    note="Not applicable: composited colour at sample points; the `inherit` keyword and currentColor are out of the property's scope.",
    design="DESIGN.md section 3 / C05",
)

CHECKS["C06"] = dict(
    technique="abstract interpretation of the gradient from_element classmethods and of as_user_space_units (for every class in the hierarchy defining it) over symbolic boxes and transforms with rational-function comparison, operand-order and straight-line call-site checks for the CTM clone, table and statement-order checks for translation folding and template inlining",
    text="Colour at a point is not decided. Decided necessary conditions: gradient attributes are parsed with the specification defaults and scaled by "
         "the right axis of the right reference box for every presence pattern; bounding-box units are converted by composing gradientTransform "
         "first and the unit-square->bbox map second without touching coordinates; the CTM is applied after gradient space, from the untransformed "
         "shape's bbox, for every transformed shape (no cache); only point-valued pairs are translated; decomposition recomposes; template "
         "inheritance honours own-wins / stops-if-absent / chain-first.",
    note="Not applicable: colour equality at interior points, 6-decimal rounding error. Scope as in the property (bbox units need unaltered geometry).",
    design="DESIGN.md section 3 / C06",
)

CHECKS["C12"] = dict(
    technique="abstract interpretation of arc_to_cubic.py over symbolic arcs with rational-function comparison against SVG 1.1 F.6.5/F.6.6 (radius correction, flag symmetries, segment continuity, control-point construction, back-transform order), path-condition inspection of the dispatch",
    text="The 0.03% accuracy bound and the number of segments are numeric and not decided. Decided for all arcs at once: |rx|,|ry| reach the "
         "parametrisation, coincident end points (exact equality, tested first) give nothing and zero radii one straight segment, the radius "
         "correction uses Lambda of F.6.6 with the half chord rotated by -phi and scales both radii, the centre/angle selection has the flag structure "
         "of F.6.5 (mirror centres, negation iff sweep == large, 2pi adjustment by sweep), consecutive segments join, control points follow the "
         "tangent construction, points are mapped back by translate o rotate o scale, and the last segment ends at the exact end point.",
    note="Not applicable to this family: distance of the cubics from the true ellipse, segment count (numeric). atan2/sqrt/max are opaque atoms.",
    design="DESIGN.md section 3 / C12",
)

CHECKS["C18"] = dict(
    technique="abstract interpretation of SVGShape.might_paint over the full product of paint attributes and geometry classes compared with a reference predicate; sibling call-site analysis of the verdict's receivers; structural checks of remove_unpainted_shapes and path_area",
    text="The verdict ladder is a finite decision procedure over attribute classes plus one computed area: it is interpreted on every combination "
         "(556 cases incl. style-resolved display, zero-length geometry and the Skia-error path) and must equal 'visible stroke, or visible fill with "
         "area > 0' with an exact-zero comparison; every site where a negative verdict deletes content must ask a receiver that carries the "
         "content's own paint.",
    note="Not applicable: whether Skia reports exactly zero area for sub-resolution slivers.",
    design="DESIGN.md section 3 / C18",
)

CHECKS["C19"] = dict(
    technique="symbolic interpretation of Rect.intersection/union and SVGShape.bounding_box with opaque min/max, API-choice and guard-structure checks of clip_to_viewbox, hidden-state lint over the shape dataclasses",
    text="Geometric exactness is Skia's. Decided: the tight-bounds API is used on the current command sequence with the right coordinate "
         "conversion, nothing memoises geometry on a mutable shape, Rect algebra equals the interval formulas on every path, and clip_to_viewbox "
         "deletes only disjoint shapes, skips only contained ones and clips the rest against the intersection rectangle at its true origin under "
         "(fill_rule, clip_rule).",
    note="Not applicable: exactness of Skia's bounds/intersection at the border.",
    design="DESIGN.md section 3 / C19",
)

CHECKS["C20"] = dict(
    technique="verify-before-return guard analysis on the syntax tree of affine_between/_round (every non-None return directly under a successful check on the same variables), structural checks of the verification chain, symbolic interpretation of _affine_callback per command letter against the affine image",
    text="Soundness of the heuristic search reduces to a guard property over all returns: nothing but None, the verified identity or a verified-then-"
         "reverified rounded candidate can be returned, the verification compares the image of s1 with s2 exhaustively under the tolerance, the "
         "translation is tried before any bail-out, and the image computed by _affine_callback is the affine image for every coordinate pair of "
         "every command letter. For arcs the image also needs rotation/sweep updates which the callback never performs (known findings F9a, F9b).",
    note="Not applicable: completeness of the search. Known findings F9a/F9b in known_findings.json.",
    design="DESIGN.md section 3 / C20",
)

CHECKS["C07"] = dict(
    technique="CFG dominance / never-after queries on the pipeline (rounding is the last writer of numbers, clean-ups after the last deleter), structural check that clipPath subtrees are deleted inside the leaves-first walk, symbolic interpretation of decompose_translation on translation-free matrices, who-may-allocate table for generated ids, effect lint of the gate",
    text="Byte equality of two conversions is not decidable statically (float formatting, Skia). Decided necessary conditions for a fixed point: "
         "nothing deletes shapes after the last pruning/orphan removal (violated today: known finding F5), nothing produces numbers after "
         "round_floats and every number is rounded, clipPath subtrees disappear before parent-group and orphan decisions, re-normalising a "
         "normalised gradient is a no-op, ids are only generated for constructs a converted document no longer has, and the gate is pure.",
    note="Not applicable to this family: numeric stability of rounding under re-parse, Skia determinism on its own output. Known finding F5 listed.",
    design="DESIGN.md section 3 / C07",
)
CHECKS["C08"] = dict(
    technique="sibling analysis of element-copy sites (id strip over root and descendants before attachment), statement-order checks allocate-then-attach incl. laziness of the swap consumer, structural completeness of the used-gradient scan, who-may-delete table, pipeline order query for orphan removal",
    text="Uniqueness, non-dangling and non-orphan references reduce to site rules: every copy inserted into the same tree strips ids from the whole "
         "copied subtree first, splits clear ids, every generated id comes from a whole-tree lowest-free search and is attached before the next "
         "allocation (lazily consumed swaps), gradients are deleted only when no shape of the whole document uses them, fills are rewritten to "
         "the element just added, and no shape is deleted after the last orphan removal (violated today: known finding F5).",
    note="Premise as in the property: every reference in the source resolves. Observations (exception at the gate, not violations) are listed in the evidence assumptions.",
    design="DESIGN.md section 3 / C08",
)
CHECKS["C14"] = dict(
    technique="CFG dominance queries (junk removers dominate every interpreting stage), parser-flag site check, live-iterator deletion lint, structural checks of the removers and of the redundant-node filters at counting/indexing sites",
    text="A relation between two conversions is not observable statically; decided is that ignorable nodes are dropped at parse time or removed "
         "before any stage that interprets, counts or instantiates elements (by dominance on every path), that removers select complete target "
         "sets with materialised queries and never delete during a live document walk, and that every counting/indexing child iteration "
         "filters comments and processing instructions.",
    note="Not applicable: equality of convert(N(D)) and convert(D) as documents (needs two runs).",
    design="DESIGN.md section 3 / C14",
)

NOT_APPLICABLE = {}


def main():
    props = [json.loads(l) for l in open(os.path.join(V, "properties.jsonl"))]
    try:
        commits = subprocess.run(["git", "-C", "/repo", "log", "--format=%h %s", "72d045c..HEAD"], capture_output=True, text=True).stdout
        fix = [l.split()[0] for l in commits.splitlines() if l.split(" ", 1)[1].startswith("fix:")]
    except Exception:
        fix = []
    checks = []
    for p in props:
        pid = p["id"]
        if pid not in CHECKS or not os.path.exists(os.path.join(V, "sa", "rules", pid.lower() + ".py")):
            continue
        c = CHECKS[pid]
        checks.append({
            "property_id": pid,
            "quick_cmd": f"./check {pid} --tier quick",
            "thorough_cmd": f"./check {pid} --tier thorough",
            "evidence_file": f"/verif/evidence/{pid}.json",
            "replay_cmd_template": f"./check {pid} --replay {{path}}",
            "engine": "sa",
            "level_claimed": {"category": "other", "text": c["text"], "design_ref": c["design"]},
            "level_note": c["note"],
            "technique": "static analysis: " + c["technique"],
        })
    na = []
    for p in props:
        pid = p["id"]
        if pid in {c["property_id"] for c in checks}:
            continue
        na.append({"property_id": pid, "reason": NOT_APPLICABLE.get(pid, "rule module not built yet (build in progress); see DESIGN.md section 3 for the planned static clauses")})
    man = {
        "version": 1,
        "setup_cmd": "true",
        "hooks": {
            "guard": "PICOSVG_VERIF",
            "enable": "no hooks: every check is a static analysis of /repo/src/picosvg/*.py (ast, re._parser); nothing in /repo reads the guard and nothing is executed",
            "baseline_off_cmd": "cd /repo && /venv/bin/python -m pytest -ra -q -p no:cacheprovider --timeout=900 --continue-on-collection-errors",
            "source_commits": sorted(fix),
            "add_only": True,
        },
        "engines": [
            {"name": "sa", "path": "/verif/sa", "serves_properties": [c["property_id"] for c in checks],
             "kind_free_text": "repo-specific static analyser: ast loader + constant folder, statement CFG with dominators, call resolver, "
                               "symbolic case-split evaluator over rational-function normal forms, regex automata, cache typestate, effect lints; "
                               "entry ./check CNN"},
        ],
        "checks": checks,
        "notes": "All checks are static (no repository code is imported or executed). Behavioural parts that quantify over runtime quantities "
                 "(rendering/colour equality, numeric accuracy of arcs/strokes/areas, byte equality of two runs inside lxml/Skia, running time) are "
                 "declared not applicable per property in DESIGN.md section 8 and in each level_note. Known findings: /verif/known_findings.json.",
        "not_applicable": na,
    }
    with open(os.path.join(V, "MANIFEST.json"), "w") as f:
        json.dump(man, f, indent=1)
    print(f"checks={len(checks)} not_applicable={len(na)} fix_commits={len(fix)}")


if __name__ == "__main__":
    main()

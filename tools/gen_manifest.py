#!/usr/bin/env python3
"""Regenerates /verif/MANIFEST.json from the table below (one entry per property with a rule module)."""
import json
import os
import subprocess

V = os.path.dirname(os.path.dirname(os.path.abspath(__file__)))

import sys
sys.path.insert(0, V)
from sa.texts import T

CHECKS = {
    pid: dict(
        technique=t["technique"],
        text=t["explanation"] + " Assurance: necessary conditions of the property, decided from the source for all values of the symbolic quantities and both sides of every "
             "undecided branch on the listed case products / scenario documents; it is not a proof over all document shapes, and the part named under 'Not decided' "
             "is outside any static argument in reach.",
        note="Not decided: " + t["not_decided"] + ". Trusted: CPython ast / re._parser, the library models of the evaluator (lxml, skia-pathops, CPython builtins) and the "
             "tables transcribed from SVG 1.1 in sa/spec.py" + ("; " + "; ".join(t["assumptions"]) if t["assumptions"] else "") + ".",
        design=f"DESIGN.md section 3 / {pid}",
    )
    for pid, t in T.items()
}

NOT_APPLICABLE = {}


def main():
    props = [json.loads(l) for l in open(os.path.join(V, "properties.jsonl"))]
    try:
        commits = subprocess.run(["git", "-C", "/repo", "log", "--format=%h %s", "72d045c..HEAD"], capture_output=True, text=True).stdout
        fix = [l.split()[0] for l in commits.splitlines() if l.split(" ", 1)[1].startswith("fix:")]
    except Exception:
        fix = []
    checks = []
    for p in props:
        pid = p["id"]
        if pid not in CHECKS or not os.path.exists(os.path.join(V, "sa", "rules", pid.lower() + ".py")):
            continue
        c = CHECKS[pid]
        checks.append({
            "property_id": pid,
            "quick_cmd": f"./check {pid} --tier quick",
            "thorough_cmd": f"./check {pid} --tier thorough",
            "evidence_file": f"/verif/evidence/{pid}.json",
            "replay_cmd_template": f"./check {pid} --replay {{path}}",
            "engine": "sa",
            "level_claimed": {"category": "other", "text": c["text"], "design_ref": c["design"]},
            "level_note": c["note"],
            "technique": "static analysis: " + c["technique"],
        })
    na = []
    for p in props:
        pid = p["id"]
        if pid in {c["property_id"] for c in checks}:
            continue
        na.append({"property_id": pid, "reason": NOT_APPLICABLE.get(pid, "rule module not built yet (build in progress); see DESIGN.md section 3 for the planned static clauses")})
    man = {
        "version": 1,
        "setup_cmd": "true",
        "hooks": {
            "guard": "PICOSVG_VERIF",
            "enable": "no hooks: every check is a static analysis of /repo/src/picosvg/*.py (ast, re._parser); nothing in /repo reads the guard and nothing is executed. The only commits made to /repo are unguarded repairs of genuine defects (messages start with fix:): " + " ".join(sorted(fix)),
            "baseline_off_cmd": "cd /repo && /venv/bin/python -m pytest -ra -q -p no:cacheprovider --timeout=900 --continue-on-collection-errors",
            "source_commits": [],
            "add_only": True,
        },
        "engines": [
            {"name": "sa", "path": "/verif/sa", "serves_properties": [c["property_id"] for c in checks],
             "kind_free_text": "repo-specific static analyser: ast loader + constant folder, case-splitting abstract interpreter of the package's source "
                               "(rational-function number domain, abstract lxml DOM, abstract skia-pathops region algebra), regex automata, statement CFG / call graph, "
                               "cache typestate, effect lints; entry ./check CNN"},
        ],
        "checks": checks,
        "notes": "All checks are static (no repository code is imported or executed). Behavioural parts that quantify over runtime quantities "
                 "(rendering/colour equality, numeric accuracy of arcs/strokes/areas, byte equality of two runs inside lxml/Skia, running time) are "
                 "stated as not decided per property in DESIGN.md section 3 and in each level_note. Known findings: /verif/known_findings.json.",
        "not_applicable": na,
    }
    with open(os.path.join(V, "MANIFEST.json"), "w") as f:
        json.dump(man, f, indent=1)
    print(f"checks={len(checks)} not_applicable={len(na)} fix_commits={len(fix)}")


if __name__ == "__main__":
    main()

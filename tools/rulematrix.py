#!/usr/bin/env python3
"""Development aid: per-RULE matrix.  For every patch (seeded change or behaviour-preserving refactoring) build a source
overlay in a scratch dir, run all 20 rule modules in-process and record which (check, rule, function, construct) fail
beyond the known findings.  Output: /tmp/rulematrix.json and a summary.  /repo is never modified."""
import glob, json, os, sys, multiprocessing as mp, collections
V = os.path.dirname(os.path.dirname(os.path.abspath(__file__)))
sys.path.insert(0, V)
sys.path.insert(0, os.path.join(V, "tools"))


def one(job):
    kind, d = job
    import importlib
    from sa.core import Repo, Report, AnalysisError, load_known
    from semprobe_lib import overlay_of
    name = "/".join(d.rstrip("/").split("/")[-2:]) if "seed2" in d else os.path.basename(d.rstrip("/"))
    out = {"kind": kind, "name": name, "fails": [], "errors": []}
    try:
        ov = overlay_of(os.path.join(d, "patch.diff"))
    except Exception as e:
        out["errors"].append(("patch", str(e)[:200]))
        return out
    only = os.environ.get("ONLY_CHECKS", "").split(",") if os.environ.get("ONLY_CHECKS") else None
    import signal

    class _Timeout(Exception):
        pass

    def _alarm(signum, frame):
        raise _Timeout()

    signal.signal(signal.SIGALRM, _alarm)
    per_check = int(os.environ.get("CHECK_TIMEOUT", "1500"))
    for i in range(1, 21):
        pid = f"C{i:02d}"
        if only and pid not in only:
            continue
        signal.alarm(per_check)
        try:
            repo = Repo(overlay=ov)
            mod = importlib.import_module(f"sa.rules.c{i:02d}")
            rep = Report(pid)
            known = {(k["rule"], k["function"], k["construct"]) for k in load_known(pid)}
            try:
                mod.run(repo, rep)
            except AnalysisError:
                if not any(f.key() not in known for f in rep.findings):
                    raise
            for f in rep.findings:
                if f.key() not in known:
                    out["fails"].append((pid, f.rule, f.function, f.construct[:80], f.message[:200]))
        except AnalysisError as e:
            out["errors"].append((pid, str(e)[:300]))
        except _Timeout:
            out["errors"].append((pid, f"TIMEOUT: the check did not finish within {per_check} s"))
        except Exception as e:
            out["errors"].append((pid, f"CRASH {type(e).__name__}: {e}"[:300]))
        finally:
            signal.alarm(0)
    try:
        with open(os.environ.get("OUT", "/tmp/rulematrix.json") + "l", "a") as fh:
            fh.write(json.dumps(out) + "\n")
    except OSError:
        pass
    return out


def main():
    jobs = []
    args = [a for a in sys.argv[1:]]
    for a in args:
        kind, pat = a.split("=", 1)
        for d in sorted(glob.glob(pat)):
            if os.path.exists(os.path.join(d, "patch.diff")):
                jobs.append((kind, d))
    os.environ['VERIF_JOBS'] = '1'
    with mp.Pool(16) as pool:
        res = pool.map(one, jobs, chunksize=1)
    json.dump(res, open(os.environ.get("OUT", "/tmp/rulematrix.json"), "w"), indent=1)
    fa = collections.Counter()
    catch = collections.defaultdict(set)
    for r in res:
        for pid, rule, fn, con, msg in r["fails"]:
            if r["kind"] == "refac":
                fa[(pid, rule)] += 1
            else:
                catch[(pid, rule)].add(r["name"])
    print("== false alarms per rule (refactorings)")
    for (pid, rule), n in sorted(fa.items(), key=lambda x: -x[1]):
        print(f"  {pid} {rule}: {n}   [seeds caught: {len(catch.get((pid, rule), ()))}]")
    print("== refactorings with alarms:", sum(1 for r in res if r["kind"] == "refac" and (r["fails"] or r["errors"])), "of", sum(1 for r in res if r["kind"] == "refac"))
    for r in res:
        if r["kind"] == "refac" and r["errors"]:
            print("  ERR", r["name"], r["errors"][:2])
    print("== seeds")
    for r in res:
        if r["kind"] == "seed":
            own = r["name"].replace("seed2-", "").split("/")[0].split("-")[0]
            owns = sorted({rule for pid, rule, *_ in r["fails"] if pid == own})
            others = sorted({pid for pid, *_ in r["fails"] if pid != own})
            print(f"  {r['name']}: own={'CAUGHT ' + ','.join(owns) if owns else 'MISSED'} others={','.join(others)} errors={[e[0] for e in r['errors']]}")


if __name__ == "__main__":
    main()

#!/bin/sh
# Runs the pinned suite in ${1:-/repo}; succeeds iff exactly the 5 always-failing tests fail and 356 pass.
R=${1:-/repo}
cd "$R" || exit 2
export PYTHONPATH="$R/src"
OUT=$(/venv/bin/python -m pytest -q -p no:cacheprovider --timeout=900 --continue-on-collection-errors -n 8 2>&1)
echo "$OUT" | tail -n 1
F=$(echo "$OUT" | grep '^FAILED' | sed -e 's/ - .*//' | sort | tr '\n' ' ')
EXP="FAILED tests/svg_test.py::test_topicosvg[arcs-before.svg-arcs-nano.svg] FAILED tests/svg_test.py::test_topicosvg[clipped-strokes-before.svg-clipped-strokes-nano.svg] FAILED tests/svg_test.py::test_topicosvg[pathops-tricky-path-before.svg-pathops-tricky-path-nano.svg] FAILED tests/svg_test.py::test_topicosvg[stroke-capjoinmiterlimit-before.svg-stroke-capjoinmiterlimit-nano.svg] FAILED tests/svg_test.py::test_topicosvg[stroke-circle-dasharray-before.svg-stroke-circle-dasharray-nano.svg] "
if [ "$F" = "$EXP" ] && echo "$OUT" | tail -n 1 | grep -q '356 passed'; then echo BASELINE-OK; else echo BASELINE-DIFFERS; echo "$F" | tr ' ' '\n' | grep -v '^FAILED$' ; exit 1; fi

#!/usr/bin/env python3
"""Applies behaviour-preserving refactorings (dirs with patch.diff) to /repo one at a time and runs all quick checks:
every check must stay silent (exit 0). Usage: refac_matrix.py <dir-with-numbered-subdirs>..."""
import concurrent.futures as cf, json, os, subprocess, sys
V = os.path.dirname(os.path.dirname(os.path.abspath(__file__)))
PROPS = [f"C{i:02d}" for i in range(1, 21)]
def sh(c): return subprocess.run(c, shell=True, capture_output=True, text=True)
def run_check(pid):
    r = subprocess.run([os.path.join(V, "check"), pid], capture_output=True, text=True, env=dict(os.environ, VERIF_JOBS="4"), cwd=V)
    msgs = [l for l in r.stdout.splitlines() if "[R-" in l or l.startswith("ANALYSIS-ERROR")]
    return pid, r.returncode, msgs
def main():
    if sh("git -C /repo status --porcelain").stdout.strip():
        print("/repo not clean"); return 2
    total = alarms = 0
    out = []
    for base in sys.argv[1:]:
        for sub in sorted(os.listdir(base)):
            d = os.path.join(base, sub)
            if not os.path.exists(os.path.join(d, "patch.diff")): continue
            a = sh(f"git -C /repo apply {d}/patch.diff")
            if a.returncode != 0:
                print(d, "PATCH DOES NOT APPLY"); continue
            try:
                with cf.ThreadPoolExecutor(max_workers=8) as ex: res = list(ex.map(run_check, PROPS))
            finally:
                sh("git -C /repo checkout -- .")
            total += 1
            bad = [(p, rc, m) for p, rc, m in res if rc != 0]
            if bad: alarms += 1
            print(d, "SILENT" if not bad else "ALARM: " + ", ".join(f"{p}(rc={rc})" for p, rc, _ in bad))
            for p, rc, m in bad:
                for line in m[:3]: print("     ", p, line[:260])
            out.append({"refactoring": d, "alarms": [{"check": p, "rc": rc, "messages": m[:3]} for p, rc, m in bad]})
    print(f"{total} refactorings, {alarms} with at least one alarm")
    json.dump(out, open("/tmp/refac_matrix.json", "w"), indent=1)
if __name__ == "__main__": sys.exit(main())

#!/usr/bin/env python3
"""merge_matrix.py <out.json> <in.json|in.jsonl> ... : merges rulematrix results (later files override earlier entries of the
same patch; a .jsonl file is the tool's incremental log of a run that was cut short)."""
import json
import sys

res = {}
for p in sys.argv[2:]:
    rows = [json.loads(l) for l in open(p) if l.strip()] if p.endswith("l") else json.load(open(p))
    for r in rows:
        res[(r["kind"], r["name"])] = r
json.dump([res[k] for k in sorted(res)], open(sys.argv[1], "w"), indent=1)
print(len(res), "patches;", sum(1 for k in res if k[0] == "refac"), "refactorings,", sum(1 for k in res if k[0] == "seed"), "seeds")

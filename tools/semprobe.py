#!/usr/bin/env python3
"""Development aid: run selected check functions in-process against source overlays built from patches.
usage: semprobe.py <expr> <patchdir>...   where <expr> is e.g. 'sem.check_simplify(r,rep,{...})' evaluated with r, rep, sem
Every patch is applied to a scratch copy of src/picosvg (under /tmp, removed afterwards); /repo is not touched."""
import glob, os, shutil, subprocess, sys, tempfile
V = os.path.dirname(os.path.dirname(os.path.abspath(__file__)))
sys.path.insert(0, V)
from sa.core import Repo, Report, AnalysisError  # noqa


def overlay_of(patch):
    tmp = tempfile.mkdtemp(prefix="ov-")
    try:
        os.makedirs(os.path.join(tmp, "src"))
        shutil.copytree("/repo/src/picosvg", os.path.join(tmp, "src", "picosvg"))
        r = subprocess.run(["patch", "-p1", "-s", "-i", patch], cwd=tmp, capture_output=True, text=True)
        if r.returncode != 0:
            raise RuntimeError("patch failed: " + r.stdout + r.stderr)
        ov = {}
        for f in glob.glob(os.path.join(tmp, "src/picosvg/*.py")):
            rel = "src/picosvg/" + os.path.basename(f)
            src = open(f).read()
            if src != open(os.path.join("/repo", rel)).read():
                ov[rel] = src
        return ov
    finally:
        shutil.rmtree(tmp, ignore_errors=True)


def one(job):
    expr, d = job
    import io, contextlib
    buf = io.StringIO()
    with contextlib.redirect_stdout(buf):
        _one(expr, d)
    return buf.getvalue()


def main():
    expr = sys.argv[1]
    dirs = []
    for a in sys.argv[2:]:
        dirs += sorted(glob.glob(a))
    import multiprocessing as mp
    with mp.Pool(16) as pool:
        for out in pool.imap(one, [(expr, d) for d in dirs], chunksize=1):
            sys.stdout.write(out)


def _one(expr, d):
    import importlib
    for d in [d]:
        patch = os.path.join(d, "patch.diff")
        if not os.path.exists(patch):
            continue
        name = "/".join(d.rstrip("/").split("/")[-2:])
        try:
            r = Repo(overlay=overlay_of(patch))
            rep = Report("X")
            ns = {"r": r, "rep": rep}
            for m in ("sem", "groups") + tuple(f"c{i:02d}" for i in range(1, 21)):
                ns[m] = importlib.import_module(f"sa.rules.{m}")
            later = ""
            try:
                exec(expr, ns)
            except AnalysisError as e:
                if not rep.findings:
                    raise
                later = f"  (then analysis error: {str(e)[:120]})"
            import json as _json
            _kn = {(k["rule"], k["function"], k["construct"]) for k in _json.load(open("/verif/known_findings.json"))["findings"]}
            _known_sites = {f"{f.function}: {f.construct}"[:90] for f in rep.findings if f.key() in _kn}
            bad = [o for o in rep.obligations if o["verdict"] != "discharged" and o["site"][:90] not in _known_sites]
            print(f"{name}: {'ALARM ' + str(len(bad)) if bad else 'silent'}{later}")
            for o in bad[:4]:
                print("    ", o["site"][:90], "|", o["detail"][:260])
        except AnalysisError as e:
            print(f"{name}: ANALYSIS-ERROR {str(e)[:300]}")
        except Exception as e:
            import traceback
            print(f"{name}: CRASH {type(e).__name__}: {e}")
            traceback.print_exc(limit=-3)


main()

#!/usr/bin/env python3
"""Applies every seeded change under /verif/seeded/*/patch.diff to /repo (one at a time), runs all quick checks,
reverts, and records which checks report a VIOLATION.  Also (re-)verifies each seed in a scratch worktree
(demo passes on the clean tree, fails with the change, pinned suite unchanged) unless --no-verify.
Writes seeded/<name>/meta.json and seeded/MATRIX.md.  /repo must be clean; it is restored after every seed."""
import concurrent.futures as cf
import json
import os
import re
import subprocess
import sys

V = os.path.dirname(os.path.dirname(os.path.abspath(__file__)))
PROPS = [f"C{i:02d}" for i in range(1, 21)]


def sh(cmd, **kw):
    return subprocess.run(cmd, shell=True, capture_output=True, text=True, **kw)


def run_check(pid):
    env = dict(os.environ, VERIF_JOBS="4")
    r = subprocess.run([os.path.join(V, "check"), pid], capture_output=True, text=True, env=env, cwd=V)
    viol = [l for l in r.stdout.splitlines() if l.startswith("VIOLATION")]
    first = next((l for l in r.stdout.splitlines() if "[R-" in l), "")
    return pid, r.returncode, len(viol), first[:220]


def main():
    verify = "--no-verify" not in sys.argv
    only = [a for a in sys.argv[1:] if not a.startswith("--")]
    if sh("git -C /repo status --porcelain").stdout.strip():
        print("/repo is not clean")
        return 2
    props = {json.loads(l)["id"]: json.loads(l) for l in open(os.path.join(V, "properties.jsonl"))}
    rows = []
    seeds = sorted(d for d in os.listdir(os.path.join(V, "seeded")) if os.path.isdir(os.path.join(V, "seeded", d)))
    for name in seeds:
        if only and name not in only:
            continue
        d = os.path.join(V, "seeded", name)
        pid = name.split("-")[0]
        meta_p = os.path.join(d, "meta.json")
        meta = json.load(open(meta_p)) if os.path.exists(meta_p) else {}
        if verify:
            r = sh(f"{V}/tools/verify_seed.sh {d}")
            meta["verified"] = r.stdout.strip().splitlines()[-1] if r.stdout.strip() else r.stderr.strip()[-200:]
            meta["verified_ok"] = r.returncode == 0
        a = sh(f"git -C /repo apply {d}/patch.diff")
        if a.returncode != 0:
            meta["applies"] = False
            json.dump(meta, open(meta_p, "w"), indent=1)
            print(name, "PATCH DOES NOT APPLY")
            continue
        try:
            with cf.ThreadPoolExecutor(max_workers=8) as ex:
                res = list(ex.map(run_check, PROPS))
        finally:
            sh("git -C /repo checkout -- .")
        caught = [p for p, rc, n, _ in res if rc == 1 and n > 0]
        errors = [p for p, rc, n, _ in res if rc == 2]
        own = next((x for x in res if x[0] == pid), None)
        notes = open(os.path.join(d, "notes.md")).read() if os.path.exists(os.path.join(d, "notes.md")) else ""
        meta.update({
            "property": pid,
            "property_title": props[pid]["title"],
            "origin": "independent sub-agent given only the property text and a scratch worktree (no access to /verif)",
            "needs_to_manifest": meta.get("needs_to_manifest") or _manifest(notes),
            "what_was_run": f"tools/verify_seed.sh (demo on clean tree, demo with patch, pinned suite with patch) and tools/seed_matrix.py (all 20 quick checks with the patch applied to /repo, then reverted)",
            "caught_by_own_check": bool(own and own[1] == 1 and own[2] > 0),
            "own_check_first_report": own[3] if own else "",
            "caught_by": caught,
            "analysis_error_in": errors,
        })
        json.dump(meta, open(meta_p, "w"), indent=1)
        rows.append((name, meta.get("verified_ok"), meta["caught_by_own_check"], caught, errors))
        print(name, "verified" if meta.get("verified_ok") else "UNVERIFIED", "own-check:", "CAUGHT" if meta["caught_by_own_check"] else "missed", "caught_by:", ",".join(caught), "errors:", ",".join(errors))
    with open(os.path.join(V, "seeded", "MATRIX.md"), "w") as f:
        f.write("# Seeded changes vs checks\n\nEach row: a change written by an independent sub-agent for the named property (it compiles and the pinned suite still passes).\n"
                "`own` = the quick check of that property reports a VIOLATION with the change applied; `also` = other checks that fire.\n\n")
        f.write("| seed | verified | own check | also caught by | analysis errors |\n|---|---|---|---|---|\n")
        for name, ok, own, caught, errors in rows:
            pid = name.split("-")[0]
            f.write(f"| {name} | {'yes' if ok else 'NO'} | {'CAUGHT' if own else 'missed'} | {', '.join(c for c in caught if c != pid)} | {', '.join(errors)} |\n")
        n = len(rows)
        f.write(f"\n{sum(1 for r in rows if r[2])} of {n} caught by the property's own check; {sum(1 for r in rows if r[3])} of {n} caught by at least one check.\n")
    return 0


def _manifest(notes: str) -> str:
    m = re.search(r"(?is)(manifest[^\n]*\n.*?)(\n#|\Z)", notes)
    txt = (m.group(1) if m else notes[:600]).strip()
    return txt[:900]


if __name__ == "__main__":
    sys.exit(main())

#!/bin/sh
# reverify_demos.sh <seed dir>...: on the current /repo HEAD, in a scratch worktree, the demo of each seed passes on the
# clean tree and fails with the patch applied (the pinned suite is not re-run here; tools/verify_seed.sh does that).
for D in "$@"; do
  W=$(mktemp -d /tmp/rv-XXXXXX); rmdir "$W"
  git -C /repo worktree add --detach -q "$W" HEAD || exit 2
  ( cd "$W" && PYTHONPATH="$W/src" timeout 300 /venv/bin/python "$D/demo.py" >/dev/null 2>&1 ); R0=$?
  if ( cd "$W" && git apply "$D/patch.diff" 2>/dev/null ); then
    ( cd "$W" && PYTHONPATH="$W/src" timeout 300 /venv/bin/python "$D/demo.py" >/dev/null 2>&1 ); R1=$?
  else R1=NOAPPLY; fi
  git -C /repo worktree remove --force "$W"
  echo "$(basename $D) head=$(git -C /repo rev-parse --short HEAD) demo_clean_rc=$R0 demo_patched_rc=$R1"
done
